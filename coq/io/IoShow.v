(* Canonical text of model results, compared verbatim with the text the
   harness computes from the implementation's observable behaviour. *)
From Skv Require Export Construct Corr.

Definition show_err (e : err) : pstr :=
  match e with
  | EUntrusted names => s "Untrusted:" ++ join [44%N] names
  | ENoLoader l => s "NoLoader:" ++ l
  | ETrustedTrue => s "TrustedTrue"
  | EKey => s "KeyError" | EType => s "TypeError" | EValue => s "ValueError"
  | EAttr => s "AttributeError" | EImport => s "ImportError" | ERecursion => s "RecursionError"
  | EUnsupported => s "Unsupported" | EOther => s "Other" | EFuel => s "FUEL" | EDomain => s "DOMAIN"
  end.

Definition show_res {A} (f : A -> pstr) (r : res A) : pstr :=
  match r with
  | Ok a => s "ok:" ++ f a
  | Raise EDomain => s "DOMAIN"
  | Raise e => s "err:" ++ show_err e
  end.

Definition show_names (l : list pstr) : pstr := join [44%N] l.

Definition show_row (r : row) : pstr :=
  show_N (N.of_nat (r_level r)) ++ 124%N :: r_key r ++ 124%N :: r_val r ++ 124%N ::
  show_bool (r_self_safe r) ++ show_bool (r_safe r) ++ show_bool (r_last r).
Definition show_rows (rs : list row) : pstr := join [10%N] (map show_row rs).

(* ---- _visualize._get_node_text: the text of a row is f"{key}: {label}" with every character c such that
   `not c.isprintable()` replaced by c.encode("unicode_escape").decode("ascii").

   str.isprintable is modelled by the decidable predicate `isprintable` on code points, given by the table
   `printable_ranges`.  The model is EXACT (isprintable c = true  <->  chr(c).isprintable() in CPython, Unicode 14 / 15) on the
   charset `exact_charset`:
       U+0000-U+024F   (C0 controls, ASCII, DEL, C1 controls, Latin-1, Latin Extended-A/B: not printable are 0-31, 127-160, 173)
       U+0370-U+0377, U+037A-U+037F, U+0384-U+038A, U+038C, U+038E-U+03A1, U+03A3-U+03FF   (the assigned Greek and Coptic)
       U+1680                                   (OGHAM SPACE MARK, Zs: not printable)
       U+2000-U+2064, U+2066-U+206F             (General Punctuation: printable are U+2010-U+2027 and U+2030-U+205E only;
                                                 spaces, ZW(N)J, LRM/RLM, LINE / PARAGRAPH SEPARATOR, bidi controls are not)
       U+2190-U+21FF, U+2500-U+257F             (Arrows, Box Drawing -- the tree-drawing characters live here: printable)
       U+3000                                   (IDEOGRAPHIC SPACE, Zs: not printable)
       U+4E00-U+9FA5                            (CJK Unified Ideographs of Unicode 1.1: printable)
       U+D800-U+DFFF, U+E000-U+F8FF             (surrogates, private use: not printable)
       U+FEFF, U+FFF9-U+FFFF                    (BOM, interlinear annotation controls, noncharacters: not printable;
                                                 U+FFFC, U+FFFD printable)
       U+1F600-U+1F64F                          (Emoticons: printable)
       U+E0001, U+E0020-U+E007F                 (tag characters, Cf: not printable)
       U+F0000-U+10FFFF                         (supplementary private use planes and their noncharacters: not printable)
   and CONSERVATIVE elsewhere: a code point outside every range of `printable_ranges` is treated as not printable (shown
   escaped), whatever Python thinks of it.  In particular every code point str.splitlines splits on (`is_linebreak`) and every
   surrogate lies in the exact charset and is not printable.  The generators of harness/props/c13.py draw characters from the
   exact charset only; the harness checks both tables against str.isprintable of the interpreter that runs skops on every
   run, and keeps a case out of the text comparison when one of its texts leaves the charset. *)
Definition printable_ranges : list (N * N) :=
  [(32, 126); (161, 172); (174, 591); (880, 887); (890, 895); (900, 906); (908, 908); (910, 929); (931, 1023);
   (8208, 8231); (8240, 8286); (8592, 8703); (9472, 9599); (19968, 40869); (65532, 65533); (128512, 128591)]%N.
Definition exact_charset : list (N * N) :=
  [(0, 591); (880, 887); (890, 895); (900, 906); (908, 908); (910, 929); (931, 1023); (5760, 5760); (8192, 8292); (8294, 8303);
   (8592, 8703); (9472, 9599); (12288, 12288); (19968, 40869); (55296, 63743); (65279, 65279); (65529, 65535);
   (128512, 128591); (917505, 917505); (917536, 917631); (983040, 1114111)]%N.
Definition in_ranges (c : N) (rs : list (N * N)) : bool :=
  existsb (fun r : N * N => N.leb (fst r) c && N.leb c (snd r)) rs.
Definition isprintable (c : N) : bool := in_ranges c printable_ranges.

(* the code points str.splitlines splits on: \n \r \v \f FS GS RS NEL LINE SEPARATOR PARAGRAPH SEPARATOR *)
Definition linebreaks : list N := [10; 11; 12; 13; 28; 29; 30; 133; 8232; 8233]%N.
Definition is_linebreak (c : N) : bool := existsb (N.eqb c) linebreaks.
Definition is_surrogate (c : N) : bool := N.leb 55296 c && N.leb c 57343.

(* lowercase hexadecimal, n digits, most significant first *)
Definition hexdig (d : N) : N := if N.ltb d 10 then (48 + d)%N else (87 + d)%N.
Fixpoint hexn (n : nat) (c : N) : pstr :=
  match n with
  | O => []
  | S n' => hexn n' (c / 16)%N ++ [hexdig (c mod 16)%N]
  end.

(* c.encode("unicode_escape").decode("ascii") for a character that is not printable (a printable backslash stays as it is) *)
Definition escape_char (c : N) : pstr :=
  if isprintable c then [c]
  else if N.eqb c 9 then [92; 116]%N                     (* \t *)
  else if N.eqb c 10 then [92; 110]%N                    (* \n *)
  else if N.eqb c 13 then [92; 114]%N                    (* \r *)
  else if N.ltb c 256 then 92%N :: 120%N :: hexn 2 c     (* \xNN *)
  else if N.ltb c 65536 then 92%N :: 117%N :: hexn 4 c   (* \uNNNN *)
  else 92%N :: 85%N :: hexn 8 c.                         (* \UNNNNNNNN *)
Definition escape_text (t : pstr) : pstr := flat_map escape_char t.

(* _get_node_text(node, label) *)
Definition node_text (tag_unsafe : pstr) (r : row) : pstr :=
  escape_text (r_key r ++ s ": " ++ label [] tag_unsafe r).

(* inverse of escape_text on texts without backslash (used to state that the escape loses nothing there) *)
Definition hexval1 (d : N) : N := if N.ltb d 58 then (d - 48)%N else (d - 87)%N.
Definition hexval (l : pstr) : N := fold_left (fun a d => (a * 16 + hexval1 d)%N) l 0%N.
Fixpoint unescape_text (l : pstr) : pstr :=
  match l with
  | [] => []
  | c :: l1 =>
      if N.eqb c 92 then
        match l1 with
        | [] => [c]
        | k :: l2 =>
            if N.eqb k 116 then 9%N :: unescape_text l2
            else if N.eqb k 110 then 10%N :: unescape_text l2
            else if N.eqb k 114 then 13%N :: unescape_text l2
            else if N.eqb k 120 then
              match l2 with
              | a :: b :: l3 => hexval [a; b] :: unescape_text l3
              | _ => c :: unescape_text l1
              end
            else if N.eqb k 117 then
              match l2 with
              | a :: b :: d :: e :: l3 => hexval [a; b; d; e] :: unescape_text l3
              | _ => c :: unescape_text l1
              end
            else if N.eqb k 85 then
              match l2 with
              | a :: b :: d :: e :: f :: g :: h :: i :: l3 => hexval [a; b; d; e; f; g; h; i] :: unescape_text l3
              | _ => c :: unescape_text l1
              end
            else c :: unescape_text l1
        end
      else c :: unescape_text l1
  end.

(* the fallback printer of pretty_print_tree (rich not installed), line by line *)
Definition seg_last : pstr := [32; 32; 32; 32]%N.
Definition seg_mid : pstr := [9474; 32; 32; 32]%N.          (* "│   " *)
Definition elbow_last : pstr := [9492; 9472; 9472]%N.       (* "└──" *)
Definition elbow_mid : pstr := [9500; 9472; 9472]%N.        (* "├──" *)

Fixpoint drop_n {A} (n : nat) (l : list A) : list A :=
  match n, l with
  | O, _ => l
  | S n', _ :: l' => drop_n n' l'
  | S _, [] => []
  end.

(* the tree-drawing part of a line: prefix = stack of is_last flags, innermost first *)
Definition line_prefix (prefix1 : list bool) (last : bool) : pstr :=
  flat_map (fun b : bool => if b then seg_last else seg_mid) (rev prefix1)
  ++ (if last then elbow_last else elbow_mid) ++ [32%N].

Fixpoint print_rest (tag_unsafe : pstr) (prev : nat) (prefix : list bool) (rows : list row) : list pstr :=
  match rows with
  | [] => []
  | r :: rs =>
      (* level_diff + 1 = prev - level + 1 truncations *)
      let prefix1 := drop_n (S prev - r_level r) prefix in
      let line := line_prefix prefix1 (r_last r) ++ node_text tag_unsafe r in
      line :: print_rest tag_unsafe (r_level r) (r_last r :: prefix1) rs
  end.

(* one line per row: the root row bare, the others behind their tree-drawing prefix *)
Definition print_lines (tag_unsafe : pstr) (rows : list row) : list pstr :=
  match rows with
  | [] => []
  | r :: rs => node_text tag_unsafe r :: print_rest tag_unsafe (r_level r) [] rs
  end.

Definition print_tree (tag_unsafe : pstr) (rows : list row) : pstr := join [10%N] (print_lines tag_unsafe rows).


Definition show_ev (e : tev) : pstr :=
  match snd e with
  | EvResolve m c => s "R:" ++ show_json_short m ++ 124%N :: show_json_short c
  | EvResolveFixed m c => s "R:" ++ m ++ 124%N :: c
  | EvFixedMod m a => if pstr_eqb m (s "numpy.random") then s "M:numpy.random|*"
                      else s "M:" ++ m ++ 124%N :: show_json_short a
  | EvFixedModDyn m => s "M:" ++ m ++ s "|*"
  | EvObjAttr a => s "A:" ++ show_json_short a
  | EvFixed c => []
  end.
Definition show_trace (es : list tev) : pstr :=
  join [10%N] (filter (fun t => match t with [] => false | _ => true end) (map show_ev es)).

(* one inspection case: everything observable before construct, plus the resolution trace *)
Record icase := {
  ic_env : env;
  ic_skipped : list pstr;
  ic_schema : json;
  ic_trust : trust;
  ic_show : show_mode
}.

Definition run_untrusted (c : icase) : pstr :=
  show_res show_names (get_untrusted_types (ic_env c) (ic_schema c)).

Definition run_audit (c : icase) : pstr :=
  match load_audit (ic_env c) (ic_schema c) (TList (ic_trust c)) with
  | Ok t => s "ok:" ++ show_res show_trace (construct_trace t)
  | Raise EDomain => s "DOMAIN"
  | Raise e => s "err:" ++ show_err e
  end.

Definition run_init_events (c : icase) : pstr :=
  show_res (fun p => show_trace (init_events (fst p))) (root_tree (ic_env c) (ic_schema c)).

Definition run_visualize (c : icase) : pstr :=
  show_res (print_tree (s "[UNSAFE]"))
           (visualize (ic_env c) (ic_skipped c) (ic_schema c) (ic_trust c) (ic_show c)).

Definition run_rows (c : icase) : pstr :=
  show_res show_rows (visualize_rows (ic_env c) (ic_skipped c) (ic_schema c) (ic_trust c)).

(* ---- comparison of the load outcome (done here because the admissible relation between the
   observed and the modelled resolution trace depends on whether load returned) ---- *)
Fixpoint lines_eqb (a b : list pstr) : bool :=
  match a, b with
  | [], [] => true
  | x :: a', y :: b' => pstr_eqb x y && lines_eqb a' b'
  | _, _ => false
  end.
Definition lines_subset (a b : list pstr) : bool := forallb (fun x => mem x b) a.

Fixpoint has_prefix (p t : pstr) : bool :=
  match p, t with
  | [], _ => true
  | x :: p', y :: t' => N.eqb x y && has_prefix p' t'
  | _, [] => false
  end.

Definition trace_lines (es : list tev) : list pstr :=
  filter (fun t => match t with [] => false | _ => true end) (map show_ev es).

(* obs = "returned" | "err:<enum>" ; result "match" or the model's own canonical outcome *)
Definition run_audit_cmp (c : icase) (obs : pstr) (obs_trace : list pstr) : pstr :=
  let returned := pstr_eqb obs (s "returned") in
  match load_audit (ic_env c) (ic_schema c) (TList (ic_trust c)) with
  | Raise EDomain => s "DOMAIN"
  | Raise e => let m := s "err:" ++ show_err e in if pstr_eqb m obs then s "match" else m
  | Ok t =>
      if has_prefix (s "err:Untrusted") obs || has_prefix (s "err:NoLoader") obs || has_prefix (s "err:TrustedTrue") obs
      then s "audit-passes"
      else
      match ctrace t 3000 [] [] t with
      | Ok (es, _) =>
          let m := trace_lines (init_events t ++ es) in
          if (if returned then lines_eqb m obs_trace else lines_subset obs_trace m)
          then s "match" else s "audit-passes;trace:" ++ join [10%N] m
      | Raise ERecursion => if returned then s "audit-passes;construct:RecursionError" else s "match"
      | Raise EDomain => s "DOMAIN"
      | Raise e => s "audit-passes;construct:" ++ show_err e
      end
  end.
