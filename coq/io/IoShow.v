(* Canonical text of model results, compared verbatim with the text the
   harness computes from the implementation's observable behaviour. *)
From Skv Require Export Construct Corr.

Definition show_err (e : err) : pstr :=
  match e with
  | EUntrusted names => s "Untrusted:" ++ join [44%N] names
  | ENoLoader l => s "NoLoader:" ++ l
  | ETrustedTrue => s "TrustedTrue"
  | EKey => s "KeyError" | EType => s "TypeError" | EValue => s "ValueError"
  | EAttr => s "AttributeError" | EImport => s "ImportError" | ERecursion => s "RecursionError"
  | EUnsupported => s "Unsupported" | EOther => s "Other" | EFuel => s "FUEL" | EDomain => s "DOMAIN"
  end.

Definition show_res {A} (f : A -> pstr) (r : res A) : pstr :=
  match r with
  | Ok a => s "ok:" ++ f a
  | Raise EDomain => s "DOMAIN"
  | Raise e => s "err:" ++ show_err e
  end.

Definition show_names (l : list pstr) : pstr := join [44%N] l.

Definition show_row (r : row) : pstr :=
  show_N (N.of_nat (r_level r)) ++ 124%N :: r_key r ++ 124%N :: r_val r ++ 124%N ::
  show_bool (r_self_safe r) ++ show_bool (r_safe r) ++ show_bool (r_last r).
Definition show_rows (rs : list row) : pstr := join [10%N] (map show_row rs).

(* the fallback printer of pretty_print_tree (rich not installed), line by line *)
Definition seg_last : pstr := [32; 32; 32; 32]%N.
Definition seg_mid : pstr := [9474; 32; 32; 32]%N.          (* "│   " *)
Definition elbow_last : pstr := [9492; 9472; 9472]%N.       (* "└──" *)
Definition elbow_mid : pstr := [9500; 9472; 9472]%N.        (* "├──" *)

Fixpoint drop_n {A} (n : nat) (l : list A) : list A :=
  match n, l with
  | O, _ => l
  | S n', _ :: l' => drop_n n' l'
  | S _, [] => []
  end.

(* prefix = stack of is_last flags, innermost first *)
Fixpoint print_rest (tag_unsafe : pstr) (prev : nat) (prefix : list bool) (rows : list row) : list pstr :=
  match rows with
  | [] => []
  | r :: rs =>
      (* level_diff + 1 = prev - level + 1 truncations *)
      let prefix1 := drop_n (S prev - r_level r) prefix in
      let line := flat_map (fun b : bool => if b then seg_last else seg_mid) (rev prefix1)
                  ++ (if r_last r then elbow_last else elbow_mid)
                  ++ 32%N :: r_key r ++ s ": " ++ label [] tag_unsafe r in
      line :: print_rest tag_unsafe (r_level r) (r_last r :: prefix1) rs
  end.

Definition print_tree (tag_unsafe : pstr) (rows : list row) : pstr :=
  match rows with
  | [] => []
  | r :: rs => join [10%N] ((r_key r ++ s ": " ++ label [] tag_unsafe r) :: print_rest tag_unsafe (r_level r) [] rs)
  end.


Definition show_ev (e : tev) : pstr :=
  match snd e with
  | EvResolve m c => s "R:" ++ show_json_short m ++ 124%N :: show_json_short c
  | EvResolveFixed m c => s "R:" ++ m ++ 124%N :: c
  | EvFixedMod m a => if pstr_eqb m (s "numpy.random") then s "M:numpy.random|*"
                      else s "M:" ++ m ++ 124%N :: show_json_short a
  | EvFixedModDyn m => s "M:" ++ m ++ s "|*"
  | EvObjAttr a => s "A:" ++ show_json_short a
  | EvFixed c => []
  end.
Definition show_trace (es : list tev) : pstr :=
  join [10%N] (filter (fun t => match t with [] => false | _ => true end) (map show_ev es)).

(* one inspection case: everything observable before construct, plus the resolution trace *)
Record icase := {
  ic_env : env;
  ic_skipped : list pstr;
  ic_schema : json;
  ic_trust : trust;
  ic_show : show_mode
}.

Definition run_untrusted (c : icase) : pstr :=
  show_res show_names (get_untrusted_types (ic_env c) (ic_schema c)).

Definition run_audit (c : icase) : pstr :=
  match load_audit (ic_env c) (ic_schema c) (TList (ic_trust c)) with
  | Ok t => s "ok:" ++ show_res show_trace (construct_trace t)
  | Raise EDomain => s "DOMAIN"
  | Raise e => s "err:" ++ show_err e
  end.

Definition run_init_events (c : icase) : pstr :=
  show_res (fun p => show_trace (init_events (fst p))) (root_tree (ic_env c) (ic_schema c)).

Definition run_visualize (c : icase) : pstr :=
  show_res (print_tree (s "[UNSAFE]"))
           (visualize (ic_env c) (ic_skipped c) (ic_schema c) (ic_trust c) (ic_show c)).

Definition run_rows (c : icase) : pstr :=
  show_res show_rows (visualize_rows (ic_env c) (ic_skipped c) (ic_schema c) (ic_trust c)).

(* ---- comparison of the load outcome (done here because the admissible relation between the
   observed and the modelled resolution trace depends on whether load returned) ---- *)
Fixpoint lines_eqb (a b : list pstr) : bool :=
  match a, b with
  | [], [] => true
  | x :: a', y :: b' => pstr_eqb x y && lines_eqb a' b'
  | _, _ => false
  end.
Definition lines_subset (a b : list pstr) : bool := forallb (fun x => mem x b) a.

Fixpoint has_prefix (p t : pstr) : bool :=
  match p, t with
  | [], _ => true
  | x :: p', y :: t' => N.eqb x y && has_prefix p' t'
  | _, [] => false
  end.

Definition trace_lines (es : list tev) : list pstr :=
  filter (fun t => match t with [] => false | _ => true end) (map show_ev es).

(* obs = "returned" | "err:<enum>" ; result "match" or the model's own canonical outcome *)
Definition run_audit_cmp (c : icase) (obs : pstr) (obs_trace : list pstr) : pstr :=
  let returned := pstr_eqb obs (s "returned") in
  match load_audit (ic_env c) (ic_schema c) (TList (ic_trust c)) with
  | Raise EDomain => s "DOMAIN"
  | Raise e => let m := s "err:" ++ show_err e in if pstr_eqb m obs then s "match" else m
  | Ok t =>
      if has_prefix (s "err:Untrusted") obs || has_prefix (s "err:NoLoader") obs || has_prefix (s "err:TrustedTrue") obs
      then s "audit-passes"
      else
      match ctrace t 3000 [] [] t with
      | Ok (es, _) =>
          let m := trace_lines (init_events t ++ es) in
          if (if returned then lines_eqb m obs_trace else lines_subset obs_trace m)
          then s "match" else s "audit-passes;trace:" ++ join [10%N] m
      | Raise ERecursion => if returned then s "audit-passes;construct:RecursionError" else s "match"
      | Raise EDomain => s "DOMAIN"
      | Raise e => s "audit-passes;construct:" ++ show_err e
      end
  end.
