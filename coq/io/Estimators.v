(* C07: what a theorem can carry about estimators.  To skops an estimator is a class (resolved by
   name), a state handed out by __getstate__ / __dict__ (ObjectNode) or a __reduce__ pair of
   constructor arguments and state (ReduceNode: Tree, loss functions), and nothing else.
   Model only; the reduction theorem is in EstimatorsFacts.v. *)
From Coq Require Import List.
Import ListNotations.

Section Estimators.
  Variables cls name state args wire input output : Type.

  (* --- oracles: the classes' own code --- *)
  Variable method : cls -> state -> input -> output.   (* predict / transform / ... on a given input *)
  Variable empty : cls -> state.                       (* the state right after cls.__new__(cls) *)
  Variable getstate : cls -> state -> state.           (* __getstate__() or __dict__ *)
  Variable setstate : cls -> state -> state -> state.  (* __setstate__(attrs) or __dict__.update(attrs), on a current state *)
  Variable reduce : cls -> state -> args * state.      (* __reduce__()[1], __reduce__()[2] (or __getstate__()) *)
  Variable construct : cls -> args -> state.           (* constructor(args...) *)

  (* --- skops' part --- *)
  Variable name_of : cls -> name.                      (* get_module(type(obj)) + __name__ *)
  Variable resolve : name -> option cls.               (* gettype *)
  Variable enc : state -> wire.                        (* get_state of the attribute dict *)
  Variable dec : wire -> option state.                 (* get_tree + construct of it *)
  Variable enc_args : args -> wire.
  Variable dec_args : wire -> option args.

  Record est := mkEst { e_cls : cls; e_state : state }.

  Inductive eschema :=
  | SObject (nm : name) (content : option wire)               (* ObjectNode *)
  | SReduce (nm : name) (a : wire) (content : wire).          (* ReduceNode (TreeNode, LossNode) *)

  (* object_get_state, when the object has state *)
  Definition dump_object (e : est) : eschema :=
    SObject (name_of (e_cls e)) (Some (enc (getstate (e_cls e) (e_state e)))).
  (* reduce_get_state *)
  Definition dump_reduce (e : est) : eschema :=
    let (a, s) := reduce (e_cls e) (e_state e) in SReduce (name_of (e_cls e)) (enc_args a) (enc s).

  (* ObjectNode._construct: cls.__new__(cls); then __setstate__ / __dict__.update when there are attrs.
     ReduceNode._construct: constructor(args...); then __setstate__ / __dict__.update *)
  Definition load (s : eschema) : option est :=
    match s with
    | SObject nm None =>
        match resolve nm with Some c => Some (mkEst c (empty c)) | None => None end
    | SObject nm (Some w) =>
        match resolve nm, dec w with
        | Some c, Some attrs => Some (mkEst c (setstate c (empty c) attrs))
        | _, _ => None
        end
    | SReduce nm wa w =>
        match resolve nm, dec_args wa, dec w with
        | Some c, Some a, Some attrs => Some (mkEst c (setstate c (construct c a) attrs))
        | _, _, _ => None
        end
    end.
End Estimators.
