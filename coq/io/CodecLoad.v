(* The load side on values: every Node._construct over the node trees of GetTree.v.
   A loaded object carries the label of the node that built it (its saved __id__); the
   implementation's memoised construct() returns the same object for a repeated id, the model
   returns the same labelled value.  Model only. *)
From Skv Require Export Unsafe CodecDump.

(* facts about the classes gettype can return, and the zip members *)
Record cenv := {
  c_env : env;
  c_members : list (pstr * blob);
  c_namedtuples : list pstr;       (* TupleNode.isnamedtuple(cls) *)
  c_generic : list pstr;           (* subclasses of np.generic *)
  c_missing : list pstr;           (* getattr(import_module(m), c) raises AttributeError *)
  c_hkinds : list (pstr * hkind)   (* classes with a payload the object path does not restore *)
}.

(* state["file"] of the first state (pre-order) carrying each id: get_tree keeps the first Node per id *)
Fixpoint file_table (j : json) : list (hkey * json) :=
  match j with
  | JObj kv =>
      let own := match dget (s "file") kv, dget (s "__id__") kv with
                 | Some f, Some i => match jhash i with Ok h => [(h, f)] | Raise _ => [] end
                 | _, _ => []
                 end in
      own ++ (fix go (l : list (pstr * json)) : list (hkey * json) :=
                match l with [] => [] | (_, x) :: l' => file_table x ++ go l' end) kv
  | JArr l => (fix go (l : list json) : list (hkey * json) :=
                 match l with [] => [] | x :: l' => file_table x ++ go l' end) l
  | _ => []
  end.

Fixpoint hk_get {A} (k : hkey) (d : list (hkey * A)) : option A :=
  match d with [] => None | (k', v) :: d' => if hkey_eqb k k' then Some v else hk_get k d' end.

Definition jstr (j : json) : res pstr := match j with JStr t => Ok t | _ => Raise EType end.

Fixpoint mapM {A B} (f : A -> res B) (l : list A) : res (list B) :=
  match l with [] => Ok [] | x :: l' => do y <- f x; do ys <- mapM f l'; Ok (y :: ys) end.

Definition nid (h : hdr) : Z := match h_id h with Some (HNum t) => (t / 2)%Z | _ => 0%Z end.

Definition kind_of_cls (m c : pstr) (dflt : seqkind) : seqkind :=
  let q := qual m c in
  if pstr_eqb q (s "builtins.list") then QList
  else if pstr_eqb q (s "builtins.tuple") then QTuple
  else if pstr_eqb q (s "builtins.set") then QSet
  else dflt.

Definition as_items (v : pval) : res (list pval) :=
  match v with PSeq _ _ _ _ _ l => Ok l | _ => Raise EDomain end.

Definition raw_bound (j : json) : res sbound :=
  match j with
  | JNull => Ok (BScalar SNone)
  | JBool b => Ok (BScalar (SBool b))
  | JInt z => Ok (BScalar (SInt z))
  | JStr t => Ok (BScalar (SStr t))
  | _ => Raise EDomain
  end.

Definition pmod (v : pval) : pstr :=
  match v with
  | PObj _ m _ _ _ _ _ | PSeq _ _ m _ _ _ | PDict _ m _ _ => m
  | _ => s "builtins"
  end.

(* ---- NdArrayNode._construct, type "json", every rank but 1: content = np.empty(shape, dtype="O") is filled cell by cell,
   the cell of index (i0, ..., ik) being nested[i0]...[ik] where nested = tmp (tmp[0] for the empty shape) ---- *)
(* element[i]: what the loop can subscript.  A list or tuple (of any class); a set raises TypeError; indexing anything
   else (str, dict, array, ...) is outside the model *)
Definition sub_items (x : pval) : res (list pval) :=
  match x with
  | PSeq QSet _ _ _ _ _ => Raise EType
  | PSeq _ _ _ _ _ l => Ok l
  | _ => Raise EDomain
  end.
(* for i in range(d): rec(items[i]), in this order, the results concatenated; a missing element is an IndexError *)
Fixpoint take_fill (rec : pval -> res (list pval)) (d : Z) (items : list pval) {struct items} : res (list pval) :=
  if (d <=? 0)%Z then Ok [] else
  match items with
  | [] => Raise EOther
  | x :: items' => do a <- rec x; do b <- take_fill rec (d - 1)%Z items'; Ok (a ++ b)
  end.
(* the cells (C order) below x for the remaining axes ds *)
Fixpoint fill (ds : list Z) (x : pval) {struct ds} : res (list pval) :=
  match ds with
  | [] => Ok [x]
  | d :: ds' => do items <- sub_items x; take_fill (fill ds') d items
  end.
(* np.empty(shape, dtype="O"): the axes are non-negative ints *)
Definition dim_of (v : pval) : res Z :=
  match v with
  | PScalar _ (SInt z) => if (z <? 0)%Z then Raise EValue else Ok z
  | _ => Raise EDomain
  end.
(* the index iterator (np.ndindex over the shape) is empty as soon as one axis has length 0: then nothing is subscripted at all *)
Definition fill_array (shape : list Z) (tmp : list pval) : res (list pval) :=
  match shape with
  | [] => match tmp with x :: _ => Ok [x] | [] => Raise EOther end       (* nested = tmp[0] *)
  | d :: ds => if existsb (Z.eqb 0) shape then Ok [] else take_fill (fill ds) d tmp
  end.

Fixpoint strip_prefix (p t : pstr) : option pstr :=
  match p, t with
  | [], _ => Some t
  | x :: p', y :: t' => if N.eqb x y then strip_prefix p' t' else None
  | _, [] => None
  end.

Section Construct.
  Variable C : cenv.
  Variable files : list (hkey * json).

  Definition gt (h : hdr) : res (pstr * pstr) :=
    do m <- jstr (h_module h);
    do c <- jstr (h_class h);
    match m, c with
    | [], _ | _, [] => Raise EValue
    | _, _ => if mem (qual m c) (c_missing C) then Raise EAttr else Ok (m, c)
    end.

  Definition hk_of (m c : pstr) : hkind :=
    match dget (qual m c) (c_hkinds C) with Some k => k | None => HKNone end.

  Definition read_blob (h : hdr) : res blob :=
    match h_id h with
    | None => Raise EDomain
    | Some i =>
        match hk_get i files with
        | Some (JStr f) => match dget f (c_members C) with Some b => Ok b | None => Raise EKey end
        | _ => Raise EDomain
        end
    end.

  Definition strip_empty (l : leaf) (subs : list node) : list node :=
    match subs with
    | [Leaf _ l'] => match l, l' with
                     | LEmptyList, LEmptyList | LEmptyDict, LEmptyDict => []
                     | _, _ => subs
                     end
    | _ => subs
    end.

  (* for k_type, (key, val) in zip(key_types, content.items()): content[k_type(key)] = val.construct() *)
  Fixpoint dict_fill (sub : node -> res pval) (kts : list pval) (conts : list node) (acc : list (dkey * pval))
    : res (list (dkey * pval)) :=
    match kts, conts with
    | kt :: kts', n :: conts' =>
        do v <- sub n;
        match kt, node_slot n with
        | PType _ km kc, SKey _ key =>
            do sc <- coerce_key km kc key;
            dict_fill sub kts' conts' (dict_set {| k_mod := km; k_cls := kc; k_val := Some sc |} v acc)
        | _, _ => Raise EDomain
        end
    | _, _ => Ok acc
    end.

  Definition cbody (h : hdr) (subs : list node) (sub : node -> res pval) : res pval :=
    let id := nid h in
    match h_kind h with
    | KDict =>
        match subs with
        | ktn :: conts =>
            do (m, c) <- gt h;
            do kts <- sub ktn;
            do ktl <- as_items kts;
            do items <- dict_fill sub ktl (strip_empty LEmptyDict conts) [];
            Ok (PDict id m c items)
        | [] => Raise EOther
        end
    | KDefaultDict =>
        match subs with
        | [a; b] =>
            do main <- sub a;
            do items <- match main with
                        | PDict _ _ _ l | PDefDict _ _ _ _ l => Ok l
                        | _ => Raise EDomain
                        end;
            do fac <- sub b;
            do (m, c) <- gt h;                      (* C04-F2 repaired: gettype(module, class)(None, main) *)
            Ok (PDefDict id m c fac items)
        | _ => Raise EOther
        end
    | KList | KSet =>
        do (m, c) <- gt h;
        do items <- mapM sub (strip_empty LEmptyList subs);
        Ok (PSeq (kind_of_cls m c (match h_kind h with KSet => QSet | _ => QList end)) id m c false items)
    | KTuple =>
        do (m, c) <- gt h;
        do items <- mapM sub (strip_empty LEmptyList subs);
        if mem (qual m c) (c_namedtuples C) then Ok (PSeq QTuple id m c true items)
        else if pstr_eqb (qual m c) (s "builtins.tuple") then Ok (PSeq QTuple id (s "builtins") (s "tuple") false items)
        else Ok (PSeq QTuple id m c false items)      (* C04-F3 repaired: any other tuple subclass is built as cls(items) *)
    | KBytes => do b <- read_blob h; do (m, c) <- gt h; Ok (PBytes id false m c (snd b))       (* C04-F5 repaired: cls(content) *)
    | KBytearray => do b <- read_blob h; do (m, c) <- gt h; Ok (PBytes id true m c (snd b))
    | KSlice =>
        match subs with
        | [Leaf _ (LRaw a); Leaf _ (LRaw b); Leaf _ (LRaw c)] =>
            do x <- raw_bound a; do y <- raw_bound b; do z <- raw_bound c;
            Ok (PSlice id x y z)
        | _ => Raise EOther
        end
    | KFunction => do (m, c) <- gt h; Ok (PFunc id m c)
    | KType => do (m, c) <- gt h; Ok (PType id m c)
    | KMethod =>
        match subs with
        | [o; Leaf _ (LRaw (JStr f))] => do self <- sub o; Ok (PMethod id (pmod self) f self)
        | _ => Raise EDomain
        end
    | KPartial =>
        match subs with
        | [a; b; c; d] =>
            do f <- sub a; do x <- sub b; do k <- sub c; do n <- sub d;
            match x, k with
            | PSeq QTuple _ _ _ _ _, PDict _ _ _ _ => Ok (PPartial id (s "functools") (s "partial") f x k n)
            | _, _ => Raise EType
            end
        | _ => Raise EOther
        end
    | KCtorReduce =>
        match subs with
        | [a] => do (m, c) <- gt h; do args <- sub a; do _ <- as_items args;
                 Ok (PObj id m c (hk_of m c) [] OKReduce args)
        | _ => Raise EOther
        end
    | KObject =>
        do (m, c) <- gt h;
        match subs with
        | [Leaf _ LNone] => Ok (PObj id m c (hk_of m c) [] OKNoState pnone)
        | [a] => do attrs <- sub a; Ok (PObj id m c (hk_of m c) [] OKState attrs)
        | _ => Raise EOther
        end
    | KJson =>
        match h_aux h with
        | JStr t => do sc <- json_parse t; Ok (PScalar id sc)
        | _ => Raise EType
        end
    | KOperatorFunc =>
        match subs with
        | [a] =>
            do (_, c) <- gt h;
            do attrs <- sub a;
            do l <- as_items attrs;
            match l with
            | [] => Raise EType
            | PScalar _ (SStr _) :: _ => Ok (POpFunc id c attrs)
            | _ => if pstr_eqb c (s "itemgetter") then Ok (POpFunc id c attrs) else Raise EType
            end
        | _ => Raise EOther
        end
    | KNdArray =>
        if jstr_eqb (h_aux h) (s "numpy") then
          do b <- read_blob h;
          do m <- jstr (h_module h);
          do c <- jstr (h_class h);
          if pstr_eqb (qual m c) (s "numpy.ndarray") then Ok (PArr id false m c (snd b))
          else do _ <- gt h; Ok (PArr id (mem (qual m c) (c_generic C)) m c (snd b))
        else
          match rev subs with
          | shn :: cells_rev =>
              do shape <- sub shn;
              do dims <- as_items shape;
              do tmp <- mapM sub (strip_empty LEmptyList (rev cells_rev));
              match dims with
              | [_] => Ok (PObjArr id (s "numpy") (s "ndarray") [Z.of_nat (length tmp)] tmp)     (* len(tmp) decides, not the shape *)
              | _ => do sh <- mapM dim_of dims;                  (* np.empty(shape, dtype="O"); nothing to check for shape () *)
                     do cells <- fill_array sh tmp;
                     Ok (PObjArr id (s "numpy") (s "ndarray") sh cells)
              end
          | [] => Raise EOther
          end
    | KMaskedArray =>
        match subs with
        | [a; b] => do d <- sub a; do m <- sub b; Ok (PMasked id (s "numpy.ma") (s "MaskedArray") d m)
        | _ => Raise EOther
        end
    | KDType =>
        match subs with
        | [a] =>
            do arr <- sub a;
            match arr with
            | PArr _ _ _ _ tok => match strip_prefix (s "dt:") tok with
                                  | Some t => Ok (PDType id t)
                                  | None => Raise EDomain
                                  end
            | _ => Raise EAttr
            end
        | _ => Raise EOther
        end
    | KRandomState =>
        match subs with
        | [a] => do (m, c) <- gt h; do st <- sub a; Ok (PRandState id m c st)
        | _ => Raise EOther
        end
    | KRandomGenerator =>
        match subs with
        | [bg; ss] => do ss' <- sub ss; do bg' <- sub bg; do (m, c) <- gt h; Ok (PRandGen id m c bg' ss')
        | _ => Raise EOther
        end
    | KSparse =>
        do b <- read_blob h;
        do m <- jstr (h_module h);
        do c <- jstr (h_class h);
        Ok (PSparse id m c (snd b))
    | _ => Raise EDomain
    end.

  Variable root : node.

  (* tree.construct(): a Ref is the memoised node itself.  A cyclic archive recurses until the fuel is
     exhausted (RecursionError in the implementation, see loads_model). *)
  Fixpoint construct_val (fuel : nat) (n : node) : res pval :=
    match fuel with
    | O => Raise EFuel
    | S fuel' =>
        match n with
        | Leaf _ _ => Raise EOther
        | Ref _ id =>
            match find_id id root with
            | Some target => construct_val fuel' target
            | None => Raise EOther
            end
        | Node h subs => cbody h subs (construct_val fuel')
        end
    end.
End Construct.

Definition construct_fuel : nat := 3000.

(* loads(data, trusted=get_untrusted_types(data)): the audit passes by construction, so
   load = get_tree + construct *)
Definition loads_model (C : cenv) (schema : json) : res pval :=
  do (t, _) <- root_tree (c_env C) schema;
  match construct_val C (file_table schema) t construct_fuel t with
  | Raise EFuel => Raise ERecursion        (* unbounded recursion through a cycle of ids *)
  | r => r
  end.

(* the environment of a load of the archive a *)
Definition env_of (reg : registry) (cur : Z) (a : archive) : env :=
  {| e_reg := reg; e_cur := cur; e_classes := []; e_unavailable := [];
     e_members := map fst (a_members a); e_resolve := [] |}.

Record cfacts := {
  f_namedtuples : list pstr; f_generic : list pstr; f_missing : list pstr; f_hkinds : list (pstr * hkind)
}.
Definition cenv_of (reg : registry) (cur : Z) (F : cfacts) (a : archive) : cenv :=
  {| c_env := env_of reg cur a; c_members := a_members a; c_namedtuples := f_namedtuples F;
     c_generic := f_generic F; c_missing := f_missing F; c_hkinds := f_hkinds F |}.

(* loads(dumps(v)) *)
Definition roundtrip (reg : registry) (cur : Z) (F : cfacts) (D : denv) (base : Z) (v : pval) : res pval :=
  do a <- dumps_model D base v;
  loads_model (cenv_of reg cur F a) (a_schema a).
