(* C13, first clause: shared definitions (merged into VisTotalFacts.v). *)
From Skv Require Import PyStrFacts CodecGuards CodecWfFacts PyValInd NodeInd TreeIds TreeWf GraphAudit ConstructFacts Families.
From Skv Require Import CodecMemberFacts CodecTreeFacts CodecShareFacts.
From Coq Require Import Lia.

(* ---- what walk / the audit need of one node ---- *)
Definition is_jstr (j : json) : bool := match j with JStr _ => true | _ => false end.
(* a child that is not a raw JSON leaf *)
Definition leaf_plain (n : node) : bool := match n with Leaf _ (LRaw _) => false | _ => true end.

Definition nice (h : hdr) (subs : list node) : bool :=
  is_jstr (h_class h) && is_jstr (h_module h)
  && match h_kind h with
     | KJson => is_jstr (h_aux h) && match subs with [] => true | _ => false end
     | KSlice => forallb is_leaf subs && pstr_eqb (h_tag h) (s "_general.SliceNode")
     | KFunction => match subs with [] => true | _ => false end
     | KFunctionV0 | KMethod | KRandomGeneratorV0 => false
     | KDict => forallb leaf_plain subs && match subs with [] => false | _ => true end
     | _ => forallb leaf_plain subs
     end.

(* ---- ranks: a node of an object of the value sits strictly above the nodes (or references) of its parts ---- *)
Section Good.
  Variable base : Z.
  Variable Objs : pval -> Prop.

  Inductive good : nat -> node -> Prop :=
  | good_leaf r sl l : good r (Leaf sl l)
  | good_ref r sl w : Objs w -> (need w <= r)%nat -> good r (Ref sl (key (pid w)))
  | good_obj r h subs w : Objs w -> h_id h = Some (key (pid w)) -> (need w <= r)%nat -> nice h subs = true ->
      Forall (good (need w - 1)) subs -> good r (Node h subs)
  | good_alloc r h subs z : (base <= z)%Z -> h_id h = Some (key z) -> nice h subs = true -> (1 <= r)%nat ->
      Forall (good (r - 1)) subs -> good r (Node h subs).

  Lemma good_mono : forall n r r', good r n -> (r <= r')%nat -> good r' n.
  Proof.
    induction n as [h0 subs0 IH|sl i|sl l] using node_ind'; intros r r' Hg Hr; inversion Hg; subst.
    - eapply good_obj; eauto. lia.
    - eapply good_alloc; eauto; [lia|]. rewrite Forall_forall in *. intros x Hx. eapply IH; [exact Hx|eauto|lia].
    - constructor; [assumption|lia].
    - constructor.
  Qed.
End Good.
