(* load's verdict in terms of get_untrusted_types (C03), for every archive and every T. *)
From Skv Require Import PyStrFacts Unsafe UnsafeFacts.

Lemma sort_dedup_nil_iff l : sort_dedup l = [] <-> l = [].
Proof.
  split; intros H; [|subst; reflexivity].
  destruct l as [|x l]; [reflexivity|].
  assert (I : In x (sort_dedup (x :: l))) by (apply sort_dedup_In; left; reflexivity).
  rewrite H in I. contradiction.
Qed.

Section Audit.
  Variable E : env.
  Hypothesis UT : all_use_T E = true.

  Lemma untrusted_of_filter T t :
    untrusted_of E (Some T) t
    = map_res (fun u => sort_dedup (filter (notin T) u)) (unsafe E None t t).
  Proof.
    unfold untrusted_of, unsafe. rewrite (unsafe_g_filter E T t (uses_T_all E UT)).
    destruct (unsafe_g E None t unsafe_fuel [] t); reflexivity.
  Qed.

  (* an exception while inspecting is the same exception whatever T is *)
  Theorem inspect_error_same j T e :
    get_untrusted_types E j = Raise e -> load_audit E j (TList T) = Raise e.
  Proof.
    unfold get_untrusted_types, load_audit.
    destruct (root_tree E j) as [[t m]|e0]; cbn [bind]; [|intros H; injection H as ->; reflexivity].
    destruct T as [T|]; [|intros ->; reflexivity].
    rewrite untrusted_of_filter. unfold untrusted_of.
    destruct (unsafe E None t t); cbn [bind map_res]; intros H; [discriminate H | injection H as ->; reflexivity].
  Qed.

  Theorem load_verdict j T G :
    get_untrusted_types E j = Ok G ->
    (exists t, load_audit E j (TList (Some T)) = Ok t /\ forall x, In x G -> In x T)
    \/ (exists U, load_audit E j (TList (Some T)) = Raise (EUntrusted U)
                  /\ U <> [] /\ forall x, In x U <-> In x G /\ ~ In x T).
  Proof.
    unfold get_untrusted_types, load_audit.
    destruct (root_tree E j) as [[t m]|e0]; cbn [bind]; [|discriminate].
    rewrite untrusted_of_filter. unfold untrusted_of.
    destruct (unsafe E None t t) as [u|e]; cbn [bind map_res]; [|discriminate].
    intros H; injection H as <-.
    destruct (sort_dedup (filter (notin T) u)) as [|y U'] eqn:S.
    - left. exists t. split; [reflexivity|].
      intros x Hx. apply -> sort_dedup_In in Hx.
      apply -> sort_dedup_nil_iff in S.
      destruct (mem x T) eqn:M; [apply mem_In; exact M|].
      assert (I : In x (filter (notin T) u)).
      { apply filter_notin_In. split; [exact Hx|]. intro C. apply mem_In in C. congruence. }
      rewrite S in I. contradiction.
    - right. exists (y :: U'). split; [reflexivity|]. split; [discriminate|].
      intros x. rewrite <- S, sort_dedup_In, filter_notin_In, sort_dedup_In. tauto.
  Qed.

  Corollary load_not_blocked j T G :
    get_untrusted_types E j = Ok G -> (forall x, In x G -> In x T) ->
    exists t, load_audit E j (TList (Some T)) = Ok t.
  Proof.
    intros HG Hin. destruct (load_verdict j T G HG) as [[t [Ht _]]|[U [_ [Hne HU]]]]; [eauto|].
    destruct U as [|x U]; [congruence|].
    destruct (HU x) as [[Hx Hn] _]; [left; reflexivity|]. elim Hn. auto.
  Qed.

  Corollary load_blocked_exactly j T G x :
    get_untrusted_types E j = Ok G -> In x G -> ~ In x T ->
    exists U, load_audit E j (TList (Some T)) = Raise (EUntrusted U) /\ In x U.
  Proof.
    intros HG Hx Hn. destruct (load_verdict j T G HG) as [[t [_ Hall]]|[U [HU [_ HI]]]].
    - elim Hn. auto.
    - exists U. split; [exact HU|]. apply HI. auto.
  Qed.

  (* enlarging T never changes a successfully audited tree *)
  Corollary load_monotone j T T' t :
    (forall x, In x T -> In x T') ->
    load_audit E j (TList (Some T)) = Ok t -> load_audit E j (TList (Some T')) = Ok t.
  Proof.
    intros Hsub H.
    destruct (get_untrusted_types E j) as [G|e] eqn:HG.
    - destruct (load_verdict j T G HG) as [[t0 [Ht0 Hall]]|[U [HU _]]]; [|congruence].
      destruct (load_not_blocked j T' G HG) as [t1 Ht1]; [auto|].
      (* both are the tree root_tree built *)
      revert H Ht1. unfold load_audit.
      destruct (root_tree E j) as [[tt mm]|e0]; cbn [bind]; [|discriminate].
      destruct (untrusted_of E (Some T) tt) as [[|]|]; cbn [bind]; try discriminate.
      destruct (untrusted_of E (Some T') tt) as [[|]|]; cbn [bind]; try discriminate.
      congruence.
    - rewrite (inspect_error_same j (Some T) e HG) in H. discriminate.
  Qed.

  (* no trusted list at all: load refuses exactly the reported names *)
  Theorem load_none j G :
    get_untrusted_types E j = Ok G ->
    match G with
    | [] => exists t, load_audit E j (TList None) = Ok t
    | _ => load_audit E j (TList None) = Raise (EUntrusted G)
    end.
  Proof.
    unfold get_untrusted_types, load_audit.
    destruct (root_tree E j) as [[t m]|e0]; cbn [bind]; [|discriminate].
    destruct (untrusted_of E None t) as [u|e]; cbn [bind]; [|discriminate].
    intros H; injection H as <-. destruct u; eauto.
  Qed.
End Audit.

Theorem trusted_true_rejected E j : load_audit E j TTrue = Raise ETrustedTrue.
Proof. reflexivity. Qed.

(* the verdict depends on T only as a set: order, duplicates, list-vs-tuple are irrelevant *)
Lemma filter_ext' {A} (f g : A -> bool) l : (forall x, f x = g x) -> filter f l = filter g l.
Proof. intros H. induction l as [|x l IH]; simpl; [reflexivity|]. rewrite H, IH. reflexivity. Qed.

Lemma mem_ext T T' : (forall x, In x T <-> In x T') -> forall x, mem x T = mem x T'.
Proof.
  intros H x. destruct (mem x T) eqn:A; destruct (mem x T') eqn:B; try reflexivity.
  - apply mem_In, H, mem_In in A. congruence.
  - apply mem_In, H, mem_In in B. congruence.
Qed.

Theorem load_T_extensional E j T T' :
  all_use_T E = true -> (forall x, In x T <-> In x T') ->
  load_audit E j (TList (Some T)) = load_audit E j (TList (Some T')).
Proof.
  intros UT H. unfold load_audit.
  destruct (root_tree E j) as [[t m]|e0]; cbn [bind]; [|reflexivity].
  rewrite !(untrusted_of_filter E UT).
  destruct (unsafe E None t t) as [u|e]; cbn [map_res bind]; [|reflexivity].
  rewrite (filter_ext' (notin T) (notin T') u); [reflexivity|].
  intros x. unfold notin. rewrite (mem_ext T T' H x). reflexivity.
Qed.
