(* What tree.construct() resolves and in which order, assuming no step raises
   (an exception only truncates the sequence).  Each event carries the header
   of the node whose _construct performs it. *)
From Skv Require Export Walk.

Inductive ev :=
| EvResolve (m c : json)          (* gettype/_import_obj(module, name), both taken from the archive *)
| EvResolveFixed (m c : pstr)     (* gettype on names fixed by the code *)
| EvFixedMod (m : pstr) (a : json)(* getattr(<module fixed by the code>, <name from the archive>) *)
| EvFixedModDyn (m : pstr)        (* same, the name comes from a constructed value *)
| EvObjAttr (a : json)            (* getattr(<constructed object>, <name from the archive>) *)
| EvFixed (ctor : pstr).          (* a constructor fixed by the code is applied *)

Definition tev := (hdr * ev)%type.
Definition done := list hkey.
Definition cres := res (list tev * done).

Definition then_ (a : cres) (f : done -> cres) : cres :=
  do (e1, d1) <- a; do (e2, d2) <- f d1; Ok (e1 ++ e2, d2).
Definition emit (h : hdr) (e : ev) (d : done) : cres := Ok ([(h, e)], d).
Definition nothing (d : done) : cres := Ok ([], d).

(* construct the nodes one after the other *)
Fixpoint seq_nodes (sub : done -> node -> cres) (ns : list node) (d : done) : cres :=
  match ns with
  | [] => nothing d
  | x :: ns' => then_ (sub d x) (seq_nodes sub ns')
  end.

(* how many items iterating the CONSTRUCTED key_types object yields, when the tree determines it: a list / tuple has as
   many items as children; a dict (only in hand-made archives) has as many keys as entries it constructs itself *)
Fixpoint kt_len (kt : node) : option nat :=
  match kt with
  | Node hk ks =>
      match h_kind hk, ks with
      | KList, [Leaf _ LEmptyList] => Some O
      | KList, _ => Some (length ks)
      | KDict, kt' :: vals' =>
          match kt_len kt' with
          | Some k => Some (Nat.min k (length vals'))
          | None => Some (length vals')
          end
      | _, _ => None
      end
  | _ => None
  end.

(* _construct of each kind; `sub d n` constructs child n *)
Definition body (h : hdr) (subs : list node) (sub : done -> node -> cres) (d : done) : cres :=
  let seq := seq_nodes sub in
  let own := emit h (EvResolve (h_module h) (h_class h)) in
  match h_kind h with
  | KList | KSet | KTuple | KCtorReduce | KObject | KOperatorFunc =>
      then_ (own d) (seq subs)
  | KRandomState =>
      (* the state first; the bit generator class it names is looked up in numpy.random (a RandomState keeps the bit
         generator it is created over: RandomState(PCG64) could not be loaded before); then the class itself *)
      then_ (seq subs d) (fun d => then_ (emit h (EvFixedModDyn (s "numpy.random")) d) own)
  | KDict =>
      (* for k_type, (key, val) in zip(key_types, content.items()): only as many values are constructed
         as the key_types list has entries *)
      match subs with
      | kt :: vals =>
          let n := match kt_len kt with Some k => k | None => length vals end in
          then_ (own d) (seq (kt :: firstn n vals))
      | [] => own d
      end
  | KDefaultDict =>
      match subs with
      | [a; b] => then_ (sub d a) (fun d => then_ (own d) (fun d => sub d b))      (* C04-F2 repaired: the dumped class itself is resolved *)
      | _ => nothing d
      end
  | KBytes | KBytearray => own d                 (* C04-F5 repaired: the dumped class (bytes, bytearray or a subclass) is resolved and called *)
  | KSlice | KJson | KSparse | KCached | KQuantileForest => nothing d
  | KFunction | KType => own d
  | KFunctionV0 =>
      match subs with
      | [Leaf _ (LRaw c)] =>
          match jindex c (s "module_path"), jindex c (s "function") with
          | Ok m, Ok f => emit h (EvResolve m f) d
          | _, _ => nothing d
          end
      | _ => nothing d
      end
  | KMethod =>
      match subs with
      | [o; Leaf _ (LRaw f)] => then_ (sub d o) (emit h (EvObjAttr f))
      | _ => nothing d
      end
  | KPartial => then_ (seq subs d) (emit h (EvFixed (s "functools.partial")))
  | KNdArray =>
      if jstr_eqb (h_aux h) (s "numpy") then
        match jqual (h_module h) (h_class h) with
        | Ok nm => if pstr_eqb nm (s "numpy.ndarray") then nothing d else own d
        | Raise _ => nothing d
        end
      else
        (* json: shape first, then the cells *)
        match rev subs with
        | sh :: cells_rev => then_ (sub d sh) (seq (rev cells_rev))
        | [] => nothing d
        end
  | KMaskedArray => then_ (seq subs d) (emit h (EvFixed (s "numpy.ma.core.MaskedArray")))
  | KDType => seq subs d
  | KRandomGenerator =>
      match subs with
      | [bg; ss] =>
          then_ (emit h (EvResolveFixed (s "numpy.random.bit_generator") (s "SeedSequence")) d)
            (fun d => then_ (sub d ss)
            (fun d => then_ (sub d bg)
            (fun d => then_ (emit h (EvFixedModDyn (s "numpy.random")) d) own)))
      | _ => nothing d
      end
  | KRandomGeneratorV1 =>
      match subs with
      | [bg] => then_ (sub d bg) (fun d => then_ (emit h (EvFixedModDyn (s "numpy.random")) d) own)
      | _ => nothing d
      end
  | KRandomGeneratorV0 =>
      match subs with
      | [Leaf _ (LRaw b)] =>
          match jindex b (s "bit_generator") with
          | Ok a => then_ (emit h (EvFixedMod (s "numpy.random") a) d) own
          | Raise _ => nothing d
          end
      | _ => nothing d
      end
  | KTree | KLoss =>
      match subs with
      | [attrs; args; Node hc _] =>
          then_ (sub d args)
            (fun d => then_ (emit hc (EvResolve (h_module hc) (h_class hc)) d) (fun d => sub d attrs))
      | _ => nothing d
      end
  end.

Section Construct.
  Variable root : node.

  Fixpoint ctrace (fuel : nat) (path : list hkey) (d : done) (n : node) : cres :=
    match fuel with
    | O => Raise EFuel
    | S fuel' =>
        match n with
        | Leaf _ _ => nothing d
        | Ref _ id =>
            if memo_mem id d then nothing d
            else match find_id id root with
                 | Some target => ctrace fuel' path d target
                 | None => Raise EOther
                 end
        | Node h subs =>
            match h_id h with
            | Some i =>
                if memo_mem i d then nothing d
                else if memo_mem i path then Raise ERecursion
                else
                  do (es, d') <- body h subs (ctrace fuel' (i :: path)) d;
                  Ok (es, i :: d')
            | None => body h subs (ctrace fuel' path) d
            end
        end
    end.
End Construct.

(* events performed while the tree is being built (before any verdict): none.
   get_tree's result type carries no event; nothing in `build` resolves a name. *)
Definition init_events (n : node) : list tev := [].

Definition construct_trace (t : node) : res (list tev) :=
  do (es, _) <- ctrace t 3000 [] [] t; Ok es.
