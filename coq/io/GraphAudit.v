(* The audit walk over the node graph examines every node of the tree (C01, C11, C13):
   ids are unique, so the cycle guard never hides a node that has not been examined. *)
From Skv Require Import PyStrFacts Node GetTree Unsafe UnsafeFacts AuditFacts NodeInd Families TreeWf TreeIds.

Lemma sub_child h subs r x : sub (Node h subs) r -> In x subs -> sub x r.
Proof.
  intros H Hin. remember (Node h subs) as n eqn:En. induction H as [|h' subs' y Hy Hs IH].
  - subst. eapply sub_step; [exact Hin | apply sub_refl].
  - eapply sub_step; [exact Hy | apply IH; exact En].
Qed.

Lemma sub_of_ref n sl id : sub n (Ref sl id) -> n = Ref sl id.
Proof. intros H. inversion H. reflexivity. Qed.

Lemma In_flat_map_ids x subs i : In x subs -> In i (ids x) -> In i (flat_map ids subs).
Proof. intros Hx Hi. apply in_flat_map. exists x. auto. Qed.

Lemma NoDup_app_l {A} (a b : list A) : NoDup (a ++ b) -> NoDup a.
Proof. induction a as [|x a IH]; intros H; [constructor|]. inversion H; subst. constructor; [intro C; apply H2; apply in_or_app; auto | auto]. Qed.
Lemma NoDup_app_r {A} (a b : list A) : NoDup (a ++ b) -> NoDup b.
Proof. induction a as [|x a IH]; intros H; [exact H|]. inversion H; subst. auto. Qed.
Lemma NoDup_app_disj {A} (a b : list A) x : NoDup (a ++ b) -> In x a -> In x b -> False.
Proof.
  induction a as [|y a IH]; intros H Ha Hb; [contradiction|]. inversion H; subst.
  destruct Ha as [->|Ha]; [apply H2; apply in_or_app; auto | eauto].
Qed.

Lemma NoDup_flat_map_elem x subs : NoDup (flat_map ids subs) -> In x subs -> NoDup (ids x).
Proof.
  induction subs as [|y subs IH]; intros H Hin; [contradiction|]. cbn [flat_map] in H.
  destruct Hin as [->|Hin]; [eapply NoDup_app_l; eauto | apply IH; [eapply NoDup_app_r; eauto | exact Hin]].
Qed.

Lemma fold_find id subs t :
  fold_right (fun x acc => match find_id id x with Some r => Some r | None => acc end) None subs = Some t ->
  exists x, In x subs /\ find_id id x = Some t.
Proof.
  induction subs as [|x subs IH]; cbn [fold_right]; intros H; [discriminate H|].
  destruct (find_id id x) as [r|] eqn:F.
  - injection H as <-. exists x. split; [left; reflexivity | exact F].
  - destruct (IH H) as [y [Hy Fy]]. exists y. split; [right; exact Hy | exact Fy].
Qed.

Lemma find_id_sub id : forall n t, find_id id n = Some t -> sub t n.
Proof.
  induction n as [h subs IH|sl i|sl l] using node_ind'; intros t H; cbn [find_id] in H; try discriminate H.
  assert (B : fold_right (fun x acc => match find_id id x with Some r => Some r | None => acc end) None subs = Some t -> sub t (Node h subs)).
  { intros Hf. destruct (fold_find _ _ _ Hf) as [x [Hx Fx]]. rewrite Forall_forall in IH.
    eapply sub_step; [exact Hx | apply IH; [exact Hx | exact Fx]]. }
  destruct (h_id h) as [i|].
  - destruct (hkey_eqb i id); [injection H as <-; apply sub_refl | apply B; exact H].
  - apply B; exact H.
Qed.

Section Complete.
  Variable E : env.
  Variable T : trust.
  Variable root : node.

  Lemma unsafe_g_complete : forall fuel path n u,
    unsafe_g E T root fuel path n = Ok u ->
    leafy n = true -> NoDup (ids n) -> (forall i, In i (ids n) -> ~ In i path) ->
    forall x nm, sub x n -> contributes E T x nm -> In nm u.
  Proof.
    induction fuel as [|fuel IH]; intros path n u H Hl Hnd Hdis x nm Hsub Hc; [discriminate H|].
    destruct n as [h subs|sl id|sl l].
    - cbn [unsafe_g] in H. cbn [leafy] in Hl. apply andb_true_iff in Hl as [Hl1 Hl2].
      cbn [ids] in Hnd, Hdis.
      inversion Hsub as [|h' subs' y Hy Hx]; subst.
      + (* the node itself *)
        cbn [contributes] in Hc. destruct (ukind_of (h_kind h)) eqn:UK; [contradiction| | |].
        * destruct Hc as [own [Ho Hi]]. rewrite Ho in H. injection H as <-. exact Hi.
        * destruct Hc as [own [Ho Hi]]. rewrite Ho in H. injection H as <-. exact Hi.
        * assert (OP : on_path h path = false).
          { unfold on_path. destruct (h_id h) as [i|] eqn:Hid; [|reflexivity].
            destruct (memo_mem i path) eqn:MM; [|reflexivity]. exfalso.
            apply (Hdis i); [unfold own_ids; rewrite Hid; left; reflexivity | apply memo_mem_In; exact MM]. }
          rewrite OP in H. destruct Hc as [own [Ho Hi]]. rewrite Ho in H. cbn [bind] in H.
          destruct (concat_res _) as [rest|]; cbn [bind] in H; [|discriminate H].
          injection H as <-. apply in_or_app. left. exact Hi.
      + (* below child y *)
        destruct (ukind_of (h_kind h)) eqn:UK.
        * exfalso. rewrite forallb_forall in Hl1. specialize (Hl1 y Hy). destruct y; try discriminate.
          apply sub_of_leaf in Hx. subst x. destruct Hc.
        * exfalso. rewrite forallb_forall in Hl1. specialize (Hl1 y Hy). destruct y; try discriminate.
          apply sub_of_leaf in Hx. subst x. destruct Hc.
        * exfalso. rewrite forallb_forall in Hl1. specialize (Hl1 y Hy). destruct y; try discriminate.
          apply sub_of_leaf in Hx. subst x. destruct Hc.
        * assert (OP : on_path h path = false).
          { unfold on_path. destruct (h_id h) as [i|] eqn:Hid; [|reflexivity].
            destruct (memo_mem i path) eqn:MM; [|reflexivity]. exfalso.
            apply (Hdis i); [apply in_or_app; left; unfold own_ids; rewrite Hid; left; reflexivity | apply memo_mem_In; exact MM]. }
          rewrite OP in H.
          destruct (own_unsafe E T h) as [own|]; cbn [bind] in H; [|discriminate H].
          destruct (concat_res _) as [rest|] eqn:C; cbn [bind] in H; [|discriminate H].
          injection H as <-. apply in_or_app. right.
          destruct (concat_res_In _ _ _ y C Hy) as [a [Ha Hi]]. apply Hi.
          rewrite forallb_forall in Hl2.
          eapply (IH (push_path h path) y a Ha); eauto.
          -- eapply NoDup_flat_map_elem; [eapply NoDup_app_r; eauto | exact Hy].
          -- intros i Hi' Hp. unfold push_path in Hp. destruct (h_id h) as [i0|] eqn:Hid.
             ++ destruct Hp as [<-|Hp].
                ** eapply (NoDup_app_disj (own_ids h) (flat_map ids subs) i0 Hnd);
                     [unfold own_ids; rewrite Hid; left; reflexivity | eapply In_flat_map_ids; eauto].
                ** apply (Hdis i); [apply in_or_app; right; eapply In_flat_map_ids; eauto | exact Hp].
             ++ apply (Hdis i); [apply in_or_app; right; eapply In_flat_map_ids; eauto | exact Hp].
    - apply sub_of_ref in Hsub. subst x. destruct Hc.
    - apply sub_of_leaf in Hsub. subst x. destruct Hc.
  Qed.
End Complete.

Opaque unsafe_fuel default_fuel.

(* When load's audit passes, NO node of the tree contributes an untrusted name. *)
Theorem audit_pass_nothing_contributes E schema T t :
  load_audit E schema (TList T) = Ok t ->
  forall x nm, sub x t -> contributes E T x nm -> False.
Proof.
  unfold load_audit. destruct (root_tree E schema) as [[t0 m]|] eqn:RT; cbn [bind]; [|intros X; discriminate X].
  unfold untrusted_of. destruct (unsafe E T t0 t0) as [u|] eqn:U; cbn [bind]; [|intros X; discriminate X].
  destruct (sort_dedup u) eqn:S; [|intros X; discriminate X]. intros X; injection X as <-.
  apply -> sort_dedup_nil_iff in S. subst u.
  intros x nm Hs Hc.
  unfold unsafe in U.
  eapply (unsafe_g_complete E T t0 unsafe_fuel [] t0 [] U); eauto.
  - apply wf_leafy. eapply root_tree_wf; eauto.
  - eapply root_tree_ids_unique; eauto.
Qed.

(* ... and the report of get_untrusted_types contains the audited name of every untrusting node *)
Theorem report_complete E schema G :
  get_untrusted_types E schema = Ok G ->
  exists t m, root_tree E schema = Ok (t, m) /\
    forall x nm, sub x t -> contributes E None x nm -> In nm G.
Proof.
  unfold get_untrusted_types. destruct (root_tree E schema) as [[t0 m]|] eqn:RT; cbn [bind]; [|intros X; discriminate X].
  unfold untrusted_of. destruct (unsafe E None t0 t0) as [u|] eqn:U; cbn [bind]; [|intros X; discriminate X].
  intros X; injection X as <-. exists t0, m. split; [reflexivity|].
  intros x nm Hs Hc. apply sort_dedup_In. unfold unsafe in U.
  eapply (unsafe_g_complete E None t0 unsafe_fuel [] t0 u U); eauto.
  - apply wf_leafy. eapply root_tree_wf; eauto.
  - eapply root_tree_ids_unique; eauto.
Qed.

(* ... and nothing else is reported: every reported name is the contribution of a node of the tree
   (references resolve to nodes of the tree) *)
Lemma leaf_unsafe_nil l u : leaf_unsafe l = Ok u -> u = [].
Proof.
  destruct l as [| |j| |]; cbn [leaf_unsafe]; try (intros X; injection X as <-; reflexivity).
  destruct j as [| | | | |[|]|[|]]; intros X; try discriminate X; injection X as <-; reflexivity.
Qed.

Lemma unsafe_g_sound E T root : forall fuel path n u,
  sub n root -> unsafe_g E T root fuel path n = Ok u ->
  forall nm, In nm u -> exists x, sub x root /\ contributes E T x nm.
Proof.
  induction fuel as [|fuel IH]; intros path n u Hs H nm Hin; [discriminate H|].
  cbn [unsafe_g] in H. destruct n as [h subs|sl id|sl l].
  - destruct (ukind_of (h_kind h)) eqn:UK.
    + injection H as <-. contradiction.
    + exists (Node h subs). split; [exact Hs|]. cbn [contributes]. rewrite UK. eauto.
    + exists (Node h subs). split; [exact Hs|]. cbn [contributes]. rewrite UK. eauto.
    + destruct (on_path h path); [injection H as <-; contradiction|].
      destruct (own_unsafe E T h) as [own|] eqn:O; cbn [bind] in H; [|discriminate H].
      destruct (concat_res _) as [rest|] eqn:C; cbn [bind] in H; [|discriminate H].
      injection H as <-. apply in_app_or in Hin as [Hin|Hin].
      * exists (Node h subs). split; [exact Hs|]. cbn [contributes]. rewrite UK. eauto.
      * destruct (concat_res_In_inv _ _ _ _ C Hin) as [x [a [Hx [Ha Hy]]]].
        eapply (IH _ x a); eauto. eapply sub_child; eauto.
  - destruct (find_id id root) as [target|] eqn:F; [|discriminate H].
    eapply (IH _ target u); eauto. eapply find_id_sub; eauto.
  - apply leaf_unsafe_nil in H. subst. contradiction.
Qed.

(* get_untrusted_types reports EXACTLY the audited names of the nodes of the tree that do not trust them *)
Theorem report_exact E schema G :
  get_untrusted_types E schema = Ok G ->
  exists t m, root_tree E schema = Ok (t, m) /\
    forall nm, In nm G <-> exists x, sub x t /\ contributes E None x nm.
Proof.
  intros HG. destruct (report_complete E schema G HG) as [t [m [RT Hc]]]. exists t, m. split; [exact RT|].
  intros nm. split.
  - revert HG. unfold get_untrusted_types. rewrite RT. cbn [bind]. unfold untrusted_of.
    destruct (unsafe E None t t) as [u|] eqn:U; cbn [bind]; [|intros X; discriminate X].
    intros X; injection X as <-. intros Hin. apply -> sort_dedup_In in Hin.
    unfold unsafe in U. eapply unsafe_g_sound; eauto. apply sub_refl.
  - intros [x [Hs Hx]]. eapply Hc; eauto.
Qed.

Lemma sub_nodup n r : sub n r -> NoDup (ids r) -> NoDup (ids n).
Proof.
  intros H. induction H as [|h subs x Hx Hs IH]; intros ND; [exact ND|].
  apply IH. cbn [ids] in ND. eapply NoDup_flat_map_elem; [eapply NoDup_app_r; eauto | exact Hx].
Qed.

Lemma sub_leafy n r : sub n r -> leafy r = true -> leafy n = true.
Proof.
  intros H. induction H as [|h subs x Hx Hs IH]; intros L; [exact L|].
  apply IH. cbn [leafy] in L. apply andb_true_iff in L as [_ L]. rewrite forallb_forall in L. apply L. exact Hx.
Qed.

(* a node whose own audit is empty has no untrusting node anywhere in its subtree (visualize's is_safe flag) *)
Theorem clean_audit_means_clean_subtree E schema T t m n :
  root_tree E schema = Ok (t, m) -> sub n t -> unsafe E T t n = Ok [] ->
  forall x nm, sub x n -> contributes E T x nm -> False.
Proof.
  intros RT Hs U x nm Hx Hc. unfold unsafe in U.
  eapply (unsafe_g_complete E T t unsafe_fuel [] n [] U); eauto.
  - eapply sub_leafy; [exact Hs|]. apply wf_leafy. eapply root_tree_wf; eauto.
  - eapply sub_nodup; [exact Hs|]. eapply root_tree_ids_unique; eauto.
Qed.
