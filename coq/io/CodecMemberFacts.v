(* Facts on member lists, member names and the file table. *)
From Skv Require Import PyStrFacts CodecGuards CodecWfFacts ShowFacts CodecNameFacts CodecTreeFacts.
From Coq Require Import Lia.

(* lookups in A survive in B (the member list is append-only and the first entry of a name wins) *)
Definition lk_incl (A B : list (pstr * blob)) : Prop := forall f b, dget f A = Some b -> dget f B = Some b.
Lemma lk_refl A : lk_incl A A. Proof. intros f b H; exact H. Qed.
Lemma lk_trans A B C0 : lk_incl A B -> lk_incl B C0 -> lk_incl A C0.
Proof. intros H1 H2 f b H. auto. Qed.
Lemma lk_app A B : lk_incl A (A ++ B).
Proof. intros f b H. apply dget_app_l. exact H. Qed.

Lemma dget_in_fst {A} f (l : list (pstr * A)) b : dget f l = Some b -> In f (map fst l).
Proof.
  induction l as [|[k x] l IH]; cbn [dget map fst In]; [discriminate|].
  destruct (pstr_eqb f k) eqn:Eq; [intros _; left; symmetry; apply pstr_eqb_eq; exact Eq|intros H; right; auto].
Qed.
Lemma dget_notin {A} f (l : list (pstr * A)) : mem f (map fst l) = false -> dget f l = None.
Proof.
  induction l as [|[k x] l IH]; cbn [dget map fst mem]; [reflexivity|]. intros H. apply orb_false_iff in H. destruct H as [H1 H2].
  rewrite H1. auto.
Qed.
Lemma dget_mem {A} f (l : list (pstr * A)) : mem f (map fst l) = true -> exists b, dget f l = Some b.
Proof.
  induction l as [|[k x] l IH]; cbn [dget map fst mem]; [discriminate|]. intros H.
  destruct (pstr_eqb f k); [eauto|]. cbn [orb] in H. auto.
Qed.
Lemma dget_app_new {A} f (l : list (pstr * A)) b : dget f l = None -> dget f (l ++ [(f, b)]) = Some b.
Proof. intros H. rewrite (dget_app_none _ _ _ H). cbn [dget]. rewrite pstr_eqb_refl. reflexivity. Qed.

(* member names *)
Lemma app_tail_len {A} (a b s1 s2 : list A) : a ++ s1 = b ++ s2 -> length s1 = length s2 -> a = b /\ s1 = s2.
Proof.
  revert b. induction a as [|x a IH]; intros [|y b] H Hl; cbn [app] in *.
  - auto.
  - subst s1. cbn [length] in Hl. rewrite app_length in Hl. lia.
  - subst s2. cbn [length] in Hl. rewrite app_length in Hl. lia.
  - injection H as -> H. destruct (IH b H Hl) as [-> ->]. auto.
Qed.
Lemma npy_inj a b : npy_name a = npy_name b -> a = b.
Proof. unfold npy_name. intros H. apply app_tail_len in H; [|reflexivity]. apply show_Z_inj. tauto. Qed.
Lemma npz_inj a b : npz_name a = npz_name b -> a = b.
Proof. unfold npz_name. intros H. apply app_tail_len in H; [|reflexivity]. apply show_Z_inj. tauto. Qed.
Lemma npy_npz a b : npy_name a <> npz_name b.
Proof. unfold npy_name, npz_name. intros H. apply app_tail_len in H; [|reflexivity]. destruct H as [_ H]. discriminate H. Qed.

(* uuid-named members (bytes / bytearray): u<n>.bin *)
Lemma uuid_split n : uuid_name n = (s "u" ++ show_N n) ++ s ".bin".
Proof. unfold uuid_name. rewrite app_assoc. reflexivity. Qed.
Lemma uuid_inj a b : uuid_name a = uuid_name b -> a = b.
Proof.
  rewrite !uuid_split. intros H. apply app_tail_len in H; [|reflexivity]. destruct H as [H _].
  change (s "u") with [117%N] in H. cbn [app] in H. injection H as H. apply show_N_inj. exact H.
Qed.
Lemma npy_uuid a n : npy_name a <> uuid_name n.
Proof. rewrite uuid_split. unfold npy_name. intros H. apply app_tail_len in H; [|reflexivity]. destruct H as [_ H]. discriminate H. Qed.
Lemma npz_uuid a n : npz_name a <> uuid_name n.
Proof. rewrite uuid_split. unfold npz_name. intros H. apply app_tail_len in H; [|reflexivity]. destruct H as [_ H]. discriminate H. Qed.

(* the file table *)
Definition ft_own (kv : list (pstr * json)) : list (hkey * json) :=
  match dget (s "file") kv, dget (s "__id__") kv with
  | Some f, Some i => match jhash i with Ok h => [(h, f)] | Raise _ => [] end
  | _, _ => []
  end.
Lemma file_table_obj kv : file_table (JObj kv) = ft_own kv ++ flat_map (fun kx => file_table (snd kx)) kv.
Proof.
  cbn [file_table]. unfold ft_own. f_equal. induction kv as [|[k x] kv IH]; [reflexivity|]. cbn [flat_map snd]. rewrite <- IH. reflexivity.
Qed.
Lemma file_table_arr l : file_table (JArr l) = flat_map file_table l.
Proof. cbn [file_table]. induction l as [|x l IH]; [reflexivity|]. cbn [flat_map]. rewrite <- IH. reflexivity. Qed.

Lemma ft_in_field k x kv : In (k, x) kv -> incl (file_table x) (file_table (JObj kv)).
Proof. intros Hin e He. rewrite file_table_obj. apply in_or_app. right. apply in_flat_map. exists (k, x). auto. Qed.
Lemma ft_in_elem x l : In x l -> incl (file_table x) (file_table (JArr l)).
Proof. intros Hin e He. rewrite file_table_arr. apply in_flat_map. exists x. auto. Qed.

Lemma hk_get_in {A} h (x : A) l : In (h, x) l -> exists y, hk_get h l = Some y /\ In (h, y) l.
Proof.
  induction l as [|[h' y] l IH]; intros Hin; [destruct Hin|]. cbn [hk_get].
  destruct (hkey_eqb h h') eqn:Eq.
  - apply TreeIds.hkey_eqb_eq in Eq. subst. exists y. split; [reflexivity|left; reflexivity].
  - destruct Hin as [Hin|Hin].
    + injection Hin as -> ->. assert (hkey_eqb h h = true) by (apply TreeIds.hkey_eqb_eq; reflexivity). congruence.
    + destruct (IH Hin) as [z [Hz Hi]]. exists z. split; [exact Hz|right; exact Hi].
Qed.

(* node_state: own entry and the entries of the fields *)
Lemma ft_node_state c mo l fields id :
  dget (s "__id__") fields = None ->
  file_table (node_state c mo l fields id)
  = match dget (s "file") fields with Some f => [(key id, f)] | None => [] end
    ++ flat_map (fun kx => file_table (snd kx)) fields.
Proof.
  intros Hid. unfold node_state. rewrite file_table_obj. f_equal.
  - unfold ft_own.
    match goal with |- context [dget (s "file") (?a :: ?b :: ?c0 :: ?r)] => change (dget (s "file") (a :: b :: c0 :: r)) with (dget (s "file") r) end.
    match goal with |- context [dget (s "__id__") (?a :: ?b :: ?c0 :: ?r)] => change (dget (s "__id__") (a :: b :: c0 :: r)) with (dget (s "__id__") r) end.
    rewrite (dget_app_none _ _ _ Hid). cbn [dget]. change (pstr_eqb (s "__id__") (CodecDump.K "__id__")) with true. cbn iota.
    destruct (dget (s "file") fields) as [f|] eqn:Ef.
    + rewrite (dget_app_l _ _ _ _ Ef). reflexivity.
    + rewrite (dget_app_none _ _ _ Ef). reflexivity.
  - cbn [flat_map snd file_table app]. rewrite flat_map_app. cbn [flat_map snd file_table]. rewrite !app_nil_r. reflexivity.
Qed.
