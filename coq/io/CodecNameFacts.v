(* C12: every member name the dump writes is <id>.npy, <id>.npz or u<n>.bin, hence flat. *)
From Skv Require Import PyStrFacts CodecWf CodecWfFacts PyValInd ShowFacts.
From Coq Require Import Lia.

Definition names (st : dst) : list pstr := map fst (d_members st).

Section Names.
  Variable P : pstr -> Prop.
  Hypothesis Pnpy : forall id, P (npy_name id).
  Hypothesis Pnpz : forall id, P (npz_name id).
  Hypothesis Pbin : forall n, P (uuid_name n).
  Variable E : denv.

  Definition M (v : pval) : Prop :=
    forall st j st', get_state E v st = Ok (j, st') -> Forall P (names st) -> Forall P (names st').

  Lemma names_write f b st : P f -> Forall P (names st) -> Forall P (names (write_member f b st)).
  Proof. intros Hf H. unfold names, write_member. cbn [d_members]. rewrite map_app. apply Forall_app. split; [exact H|]. constructor; [exact Hf|constructor]. Qed.
  Lemma names_cond f b st : P f -> Forall P (names st) -> Forall P (names (if has_member f st then st else write_member f b st)).
  Proof. intros Hf H. destruct (has_member f st); [exact H|apply names_write; assumption]. Qed.

  Lemma states_names l : Forall M l -> forall st js st', states_of (fun x s0 => get_state E x s0) l st = Ok (js, st') ->
    Forall P (names st) -> Forall P (names st').
  Proof.
    induction 1 as [|x l Hx Hl IH]; intros st js st' H Hn; cbn [states_of] in H.
    - injection H as <- <-. exact Hn.
    - inv_bind H. eapply IH; [eassumption|]. eapply Hx; eassumption.
  Qed.
  Lemma content_names l : Forall (fun kv => M (snd kv)) l -> forall acc st cont st',
    content_of (fun x s0 => get_state E x s0) l acc st = Ok (cont, st') -> Forall P (names st) -> Forall P (names st').
  Proof.
    induction 1 as [|[k x] l Hx Hl IH]; intros acc st cont st' H Hn; cbn [content_of] in H.
    - injection H as <- <-. exact Hn.
    - destruct (is_prop x); [eapply IH; eassumption|]. inv_bind H. cbn [snd] in Hx. destruct (k_val k).
      + eapply IH; [eassumption|]. eapply Hx; eassumption.
      + eapply IH; [eassumption|]. change (names (set_late EType d)) with (names d). eapply Hx; eassumption.
  Qed.

  Definition Mc (c : clo) : Prop := forall st j st', c st = Ok (j, st') -> Forall P (names st) -> Forall P (names st').
  Lemma run_all_names cs : Forall Mc cs -> forall st js st', run_all cs st = Ok (js, st') -> Forall P (names st) -> Forall P (names st').
  Proof.
    induction 1 as [|c cs Hc Hcs IH]; intros st js st' H Hn; cbn [run_all] in H.
    - injection H as <- <-. exact Hn.
    - inv_bind H. eapply IH; [eassumption|]. eapply Hc; eassumption.
  Qed.
  Lemma content_names_clos dims cs : Forall Mc cs -> Forall Mc (content_clos dims cs).
  Proof.
    apply content_clos_ind.
    - intros st j st' H. discriminate H.
    - intros cs0 Hcs st j st' H Hn. unfold list_clo in H. destruct (fresh st) as [lid st0] eqn:Hf.
      assert (Hn0 : Forall P (names st0)) by (unfold fresh in Hf; injection Hf as <- <-; exact Hn).
      destruct (run_all cs0 st0) as [[items st1]|] eqn:E1; [|discriminate H]. cbn [bind] in H. injection H as <- <-.
      eapply run_all_names; eassumption.
  Qed.

  Lemma fresh_names st : names (snd (fresh st)) = names st. Proof. reflexivity. Qed.

  Theorem get_state_names : forall v, M v.
  Proof.
    apply (pval_ind' M).
    - intros v Hl st j st' H Hn. destruct v; try discriminate Hl; cbn [get_state] in H.
      + injection H as <- <-. exact Hn.
      + injection H as <- <-. exact Hn.
      + destruct (fresh_uuid st) as [u st1] eqn:Hf. injection H as <- <-. apply names_write; [apply Pbin|].
        unfold fresh_uuid in Hf. injection Hf as <- <-. exact Hn.
      + discriminate.
      + assert (Hsb : forall b st0 jb st1, sbound_json b st0 = Ok (jb, st1) -> names st1 = names st0).
        { intros b0 st0 jb st1 Hb. destruct b0 as [[| | | |]|]; cbn in Hb; try discriminate; injection Hb as <- <-; reflexivity. }
        inv_bind H. rewrite (Hsb _ _ _ _ E2), (Hsb _ _ _ _ E1), (Hsb _ _ _ _ E0). exact Hn.
      + injection H as <- <-. apply names_cond; [apply Pnpy|exact Hn].
      + destruct (fresh st) as [tid st0] eqn:Hf. injection H as <- <-. apply names_cond; [apply Pnpy|].
        unfold fresh in Hf. injection Hf as <- <-. exact Hn.
      + injection H as <- <-. apply names_cond; [apply Pnpz|exact Hn].
      + injection H as <- <-. exact Hn.
      + injection H as <- <-. exact Hn.
      + discriminate.
    - intros q id m c nt l IH st j st' H Hn. cbn [get_state] in H. inv_bind H. eapply states_names; eassumption.
    - intros id m c l IH st j st' H Hn. cbn [get_state] in H. destruct (fresh st) as [ktid st0] eqn:Hf. inv_bind H.
      eapply content_names; [exact IH|eassumption|]. unfold fresh in Hf. injection Hf as <- <-. exact Hn.
    - intros id m c f l IHf IH st j st' H Hn. cbn [get_state] in H. destruct (fresh st) as [did st0] eqn:Hf.
      destruct (fresh st0) as [ktid st0'] eqn:Hf2. inv_bind H. eapply IHf; [eassumption|].
      eapply content_names; [exact IH|eassumption|]. unfold fresh in Hf, Hf2. injection Hf as <- <-. injection Hf2 as <- <-. exact Hn.
    - intros id m c sh l IH st j st' H Hn. cbn [get_state] in H.
      destruct (shape_okb sh (length l)); [|discriminate H].
      destruct (fresh st) as [lid st0] eqn:Hf0.
      assert (Hn0 : Forall P (names st0)) by (unfold fresh in Hf0; injection Hf0 as <- <-; exact Hn).
      destruct (run_all _ st0) as [[items st1]|] eqn:E0; [|discriminate H]. cbn [bind] in H.
      destruct (shape_state sh st1) as [shj st2] eqn:E1. injection H as <- <-.
      assert (Hc : Forall Mc (map (fun x s0 => get_state E x s0) l)).
      { clear -IH. induction IH; cbn [map]; constructor; auto. }
      pose proof (run_all_names _ (content_names_clos (map Z.to_nat sh) _ Hc) _ _ _ E0 Hn0) as Hn1.
      assert (Hsh : forall dims st0 js st3, shape_items dims st0 = (js, st3) -> names st3 = names st0).
      { induction dims as [|d dims IHd]; intros st5 js st3 Hs; cbn [shape_items] in Hs; [injection Hs as <- <-; reflexivity|].
        destruct (int_obj d st5) as [i st4] eqn:Ei. destruct (shape_items dims st4) as [rest st6] eqn:Er. injection Hs as <- <-.
        rewrite (IHd _ _ _ Er). unfold int_obj in Ei. destruct (is_small_int d); [injection Ei as <- <-; reflexivity|].
        unfold fresh in Ei. injection Ei as <- <-. reflexivity. }
      unfold shape_state in E1. destruct sh as [|d0 sh0].
      + cbn in E1. injection E1 as <- <-. exact Hn1.
      + destruct (fresh st1) as [tid st3] eqn:Hf. destruct (shape_items (d0 :: sh0) st3) as [items' st4] eqn:Es. injection E1 as <- <-.
        rewrite (Hsh _ _ _ _ Es). unfold fresh in Hf. injection Hf as <- <-. exact Hn1.
    - intros id m c d k IHd IHk st j st' H Hn. cbn [get_state] in H. inv_bind H. eapply IHk; [eassumption|]. eapply IHd; eassumption.
    - intros id m c x IHx st j st' H Hn. cbn [get_state] in H. inv_bind H. eapply IHx; eassumption.
    - intros id m c x y IHx IHy st j st' H Hn. cbn [get_state] in H. inv_bind H. eapply IHy; [eassumption|]. eapply IHx; eassumption.
    - intros id m c f a k n IHf IHa IHk IHn st j st' H Hn. cbn [get_state] in H. inv_bind H.
      eapply IHn; [eassumption|]. eapply IHk; [eassumption|]. eapply IHa; [eassumption|]. eapply IHf; eassumption.
    - intros id c a IHa st j st' H Hn. cbn [get_state] in H. inv_bind H. eapply IHa; eassumption.
    - intros id m f x IHx st j st' H Hn. cbn [get_state] in H. inv_bind H. eapply IHx; eassumption.
    - intros id m c hk h ok x _ IHx st j st' H Hn. cbn [get_state] in H. destruct ok; inv_bind H; try (eapply IHx; eassumption). exact Hn.
  Qed.
End Names.

(* flatness of the three name forms *)
Definition okchar (c : N) : bool := negb ((c =? 47) || (c =? 92) || (c =? 58))%N.
Lemma flat_app a b : a <> [] -> forallb okchar a = true -> forallb okchar b = true -> flat_name (a ++ b) = true.
Proof.
  intros Ha H1 H2. unfold flat_name. destruct (a ++ b) eqn:Eab; [destruct a; [congruence|discriminate]|].
  rewrite <- Eab. rewrite forallb_app. change (fun c => negb ((c =? 47) || (c =? 92) || (c =? 58))%N) with okchar. rewrite H1, H2. reflexivity.
Qed.
Lemma show_Z_ok z : forallb okchar (show_Z z) = true.
Proof.
  rewrite forallb_forall. intros c Hc. pose proof (show_Z_chars z) as H. rewrite Forall_forall in H. specialize (H c Hc).
  unfold okchar. destruct H as [H| ->]; [|reflexivity]. unfold isdig in H.
  assert ((c =? 47) = false /\ (c =? 92) = false /\ (c =? 58) = false)%N as [-> [-> ->]]; [|reflexivity].
  repeat split; apply N.eqb_neq; lia.
Qed.
Lemma show_Z_ne z : show_Z z <> [].
Proof. destruct z; cbn [show_Z]; try discriminate; apply show_N_nonempty. Qed.
Lemma show_N_ok n : forallb okchar (show_N n) = true.
Proof.
  rewrite forallb_forall. intros c Hc. pose proof (show_N_digits n) as H. rewrite Forall_forall in H. specialize (H c Hc).
  unfold okchar, isdig in *.
  assert ((c =? 47) = false /\ (c =? 92) = false /\ (c =? 58) = false)%N as [-> [-> ->]]; [|reflexivity].
  repeat split; apply N.eqb_neq; lia.
Qed.

Definition okname (n : pstr) : Prop := flat_name n = true /\ name_shape n.

Theorem dumps_flat_names D base v a : dumps_model D base v = Ok a ->
  forall n, In n (member_names a) -> flat_name n = true /\ name_shape n.
Proof.
  unfold dumps_model. intros H. destruct (get_state D v (init_dst base)) as [[j st]|] eqn:E0; [|discriminate]. cbn [bind] in H.
  destruct j; try discriminate. destruct (d_late st); [discriminate|]. injection H as <-.
  assert (Hall : Forall okname (names st)).
  { apply (get_state_names okname) with (E := D) (v := v) (st := init_dst base) (j := JObj kv); [| | |exact E0|constructor].
    - intros id. split; [|constructor]. unfold npy_name. apply flat_app; [apply show_Z_ne|apply show_Z_ok|reflexivity].
    - intros id. split; [|constructor]. unfold npz_name. apply flat_app; [apply show_Z_ne|apply show_Z_ok|reflexivity].
    - intros n. split; [|constructor]. unfold uuid_name. apply (flat_app (s "u")); [discriminate|reflexivity|].
      rewrite forallb_app, show_N_ok. reflexivity. }
  unfold member_names. cbn [a_members]. intros n Hn. apply in_app_or in Hn. destruct Hn as [Hn|[<-|[]]].
  - rewrite Forall_forall in Hall. apply Hall. exact Hn.
  - split; [reflexivity|constructor].
Qed.
