(* C07: output fidelity reduces to state fidelity (C05), the classes' own pickle contract and
   purity of the methods; and: a tree of default-trusted names audits clean. *)
From Skv Require Import Estimators.
From Skv Require Import PyStrFacts Unsafe NodeInd.
From Coq Require Import List.
Import ListNotations.

Section Reduction.
  Variables cls name state args wire input output : Type.
  Variable method : cls -> state -> input -> output.
  Variable empty : cls -> state.
  Variable getstate : cls -> state -> state.
  Variable setstate : cls -> state -> state -> state.
  Variable reduce : cls -> state -> args * state.
  Variable construct : cls -> args -> state.
  Variable name_of : cls -> name.
  Variable resolve : name -> option cls.
  Variable enc : state -> wire.
  Variable dec : wire -> option state.
  Variable enc_args : args -> wire.
  Variable dec_args : wire -> option args.

  (* "same value" of C05: equal types, structure and contents up to object identity *)
  Variable iso : state -> state -> Prop.
  Variable iso_args : args -> args -> Prop.

  (* premises (all visible in the closed theorems) *)
  (* sklearn's methods look at nothing but the class and the state, up to iso *)
  Hypothesis method_pure : forall c s s' x, iso s s' -> method c s x = method c s' x.
  (* the class can be imported again under the name it was saved with *)
  Hypothesis resolve_name : forall c, resolve (name_of c) = Some c.
  (* C05: supported states / argument tuples round-trip up to iso *)
  Hypothesis codec : forall s, exists s', dec (enc s) = Some s' /\ iso s s'.
  Hypothesis codec_args : forall a, exists a', dec_args (enc_args a) = Some a' /\ iso_args a a'.
  (* the classes' pickle contract: __setstate__ on a fresh instance restores what __getstate__ gave;
     constructor(args...) followed by __setstate__ restores what __reduce__ gave *)
  Hypothesis getset_contract : forall c s a, iso (getstate c s) a -> iso s (setstate c (empty c) a).
  Hypothesis reduce_contract : forall c s a st a' st',
      reduce c s = (a, st) -> iso_args a a' -> iso st st' -> iso s (setstate c (construct c a') st').

  Notation est := (est cls state).
  Notation load := (load cls name state args wire empty setstate construct resolve dec dec_args).

  Theorem reduction_object (e : est) :
    exists e', load (dump_object cls name state wire getstate name_of enc e) = Some e'
      /\ e_cls _ _ e' = e_cls _ _ e /\ iso (e_state _ _ e) (e_state _ _ e')
      /\ forall x, method (e_cls _ _ e') (e_state _ _ e') x = method (e_cls _ _ e) (e_state _ _ e) x.
  Proof.
    destruct e as [c s]. unfold dump_object. cbn [Estimators.load e_cls e_state].
    rewrite resolve_name. destruct (codec (getstate c s)) as [a [Ha Hi]]. rewrite Ha.
    eexists. split; [reflexivity|]. cbn [e_cls e_state].
    assert (I : iso s (setstate c (empty c) a)) by (apply getset_contract, Hi).
    split; [reflexivity|]. split; [exact I|]. intros x. symmetry. apply method_pure, I.
  Qed.

  Theorem reduction_reduce (e : est) :
    exists e', load (dump_reduce cls name state args wire reduce name_of enc enc_args e) = Some e'
      /\ e_cls _ _ e' = e_cls _ _ e /\ iso (e_state _ _ e) (e_state _ _ e')
      /\ forall x, method (e_cls _ _ e') (e_state _ _ e') x = method (e_cls _ _ e) (e_state _ _ e) x.
  Proof.
    destruct e as [c s]. unfold dump_reduce. cbn [e_cls e_state].
    destruct (reduce c s) as [a st] eqn:R. cbn [Estimators.load].
    rewrite resolve_name. destruct (codec_args a) as [a' [Ha Hia]]. rewrite Ha.
    destruct (codec st) as [st' [Hs His]]. rewrite Hs.
    eexists. split; [reflexivity|]. cbn [e_cls e_state].
    assert (I : iso s (setstate c (construct c a') st')) by (eapply reduce_contract; eauto).
    split; [reflexivity|]. split; [exact I|]. intros x. symmetry. apply method_pure, I.
  Qed.
End Reduction.

(* ------------------------------------------------------------------ default trust *)
(* every node of the tree is trusted by its own class's defaults (no caller list) *)
Fixpoint all_default (E : env) (n : node) : bool :=
  match n with
  | Ref _ _ => true
  | Leaf _ l => match leaf_unsafe l with Ok [] => true | _ => false end
  | Node h subs =>
      match ukind_of (h_kind h) with
      | UNothing => true
      | UOwn => match self_safe E None h with Ok true => true | _ => false end
      | UFunction => match function_name h subs with
                     | Ok fn => mem fn (node_trusted E None h)
                     | Raise _ => false
                     end
      | UGeneric => match self_safe E None h with
                    | Ok true => forallb (all_default E) subs
                    | _ => false
                    end
      end
  end.

Lemma concat_res_nil {A B} (f : A -> res (list B)) l :
  (forall x, In x l -> f x = Ok []) -> concat_res (map f l) = Ok [].
Proof.
  induction l as [|x l IH]; intros H; [reflexivity|].
  cbn [map concat_res]. rewrite (H x (or_introl eq_refl)). cbn [bind].
  rewrite IH by (intros y Hy; apply H; right; exact Hy). reflexivity.
Qed.

Theorem default_trusted E n : all_default E n = true -> unsafe_tree E None n = Ok [].
Proof.
  induction n as [h subs IH|sl id|sl l] using node_ind'; cbn [all_default unsafe_tree]; intros H.
  - destruct (ukind_of (h_kind h)).
    + reflexivity.
    + unfold own_unsafe. destruct (self_safe E None h) as [[|]|e]; try discriminate. reflexivity.
    + unfold fn_unsafe. destruct (function_name h subs) as [fn|e]; [|discriminate].
      cbn [bind]. rewrite H. reflexivity.
    + unfold own_unsafe. destruct (self_safe E None h) as [[|]|e]; try discriminate.
      cbn [bind]. rewrite concat_res_nil; [reflexivity|].
      intros x Hx. rewrite Forall_forall in IH. apply (IH x Hx).
      rewrite forallb_forall in H. apply H, Hx.
  - reflexivity.
  - destruct (leaf_unsafe l) as [[|]|]; try discriminate. reflexivity.
Qed.

(* the same for the audit as the implementation runs it (a Ref is the memoised node itself, nodes on
   the call stack contribute nothing): whenever it returns, it returns nothing *)
Lemma concat_res_all_nil {A B} (f : A -> res (list B)) l r :
  concat_res (map f l) = Ok r -> (forall x lx, In x l -> f x = Ok lx -> lx = []) -> r = [].
Proof.
  revert r. induction l as [|x l IH]; intros r H Hall; cbn [map concat_res] in H.
  - injection H as <-. reflexivity.
  - destruct (f x) as [a|e] eqn:Fx; [|discriminate]. cbn [bind] in H.
    destruct (concat_res (map f l)) as [b|e] eqn:Fl; [|discriminate]. cbn [bind] in H.
    injection H as <-. rewrite (Hall x a (or_introl eq_refl) Fx).
    rewrite (IH b eq_refl) by (intros y ly Hy; apply Hall; right; exact Hy). reflexivity.
Qed.

Theorem default_trusted_graph E root :
  (forall id t, find_id id root = Some t -> all_default E t = true) ->
  forall fuel path n l, all_default E n = true -> unsafe_g E None root fuel path n = Ok l -> l = [].
Proof.
  intros Hroot fuel. induction fuel as [|fuel IH]; intros path n l Hn H; [discriminate|].
  cbn [unsafe_g] in H. destruct n as [h subs|sl id|sl lf]; cbn [all_default] in Hn.
  - destruct (ukind_of (h_kind h)).
    + injection H as <-. reflexivity.
    + unfold own_unsafe in H. destruct (self_safe E None h) as [[|]|e]; try discriminate.
      cbn [bind] in H. injection H as <-. reflexivity.
    + unfold fn_unsafe in H. destruct (function_name h subs) as [fn|e]; [|discriminate].
      cbn [bind] in H. rewrite Hn in H. injection H as <-. reflexivity.
    + destruct (on_path h path); [injection H as <-; reflexivity|].
      unfold own_unsafe in H. destruct (self_safe E None h) as [[|]|e]; try discriminate.
      cbn [bind] in H.
      destruct (concat_res (map (unsafe_g E None root fuel (push_path h path)) subs)) as [rest|e] eqn:C; [|discriminate].
      cbn [bind] in H. injection H as <-. cbn [app].
      eapply concat_res_all_nil; [exact C|]. intros x lx Hx Hl.
      rewrite forallb_forall in Hn. exact (IH _ _ _ (Hn x Hx) Hl).
  - destruct (find_id id root) as [t|] eqn:F; [|discriminate].
    exact (IH _ _ _ (Hroot _ _ F) H).
  - destruct (leaf_unsafe lf) as [[|]|]; try discriminate. injection H as <-. reflexivity.
Qed.
