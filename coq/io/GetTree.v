(* get_tree and every Node subclass __init__, as a total function on arbitrary
   JSON.  Order of evaluation follows the Python source (it decides which
   exception wins and which ids are memoised first). *)
From Skv Require Export Node.

Definition K := s.   (* readability: K "content" *)

(* load_context.src.read(name) *)
Definition read_member (E : env) (name : json) : res unit :=
  match name with
  | JStr t => if mem t (e_members E) then Ok tt else Raise EKey
  | JArr _ | JObj _ => Raise EType
  | _ => Raise EKey
  end.

(* gettype(module, name) : truthiness test, import_module, getattr *)
Definition gettype (E : env) (m c : json) : res (pstr * pstr) :=
  if negb (jtruthy m && jtruthy c) then Raise EValue else
  match m with
  | JStr mt =>
      match c with
      | JStr ct => match dget (qual mt ct) (e_resolve E) with
                   | Some r => r
                   | None => Raise EImport
                   end
      | _ => (* import happens first; then getattr(mod, non-str) *)
             match dget mt (e_resolve E) with
             | Some (Raise e) => Raise e
             | _ => Raise EType
             end
      end
  | _ => Raise EAttr
  end.

Definition memo := list hkey.
Fixpoint memo_mem (h : hkey) (m : memo) : bool :=
  match m with [] => false | x :: m' => hkey_eqb h x || memo_mem h m' end.

(* Node.__init__ : returns the header and the new memo *)
Definition node_init (sl : slot) (k : kind) (tag : pstr) (extra : list pstr)
           (memoize : bool) (m : memo) (j : json) (aux : json) : res (hdr * memo) :=
  do cc <- jindex j (K "__class__");
  do cm <- jindex j (K "__module__");
  do sid <- jget j (K "__id__");
  if jtruthy sid && memoize then
    do h <- jhash sid;
    Ok ({| h_slot := sl; h_kind := k; h_tag := tag; h_id := Some h; h_extra := extra;
           h_class := cc; h_module := cm; h_aux := aux |}, h :: m)
  else
    Ok ({| h_slot := sl; h_kind := k; h_tag := tag; h_id := None; h_extra := extra;
           h_class := cc; h_module := cm; h_aux := aux |}, m).

Definition set_aux (h : hdr) (a : json) : hdr :=
  {| h_slot := h_slot h; h_kind := h_kind h; h_tag := h_tag h; h_id := h_id h;
     h_extra := h_extra h; h_class := h_class h; h_module := h_module h; h_aux := a |}.

Section GetTree.
  Variable E : env.
  Variable proto : json.

  (* the recursive call, with one unit of fuel less *)
  Variable rec : list pstr -> slot -> memo -> json -> res (node * memo).

  Fixpoint sub_list (extra : list pstr) (name : pstr) (m : memo) (js : list json)
    : res (list node * memo) :=
    match js with
    | [] => Ok ([], m)
    | j :: js' =>
        do (n, m1) <- rec extra (SElem name) m j;
        do (ns, m2) <- sub_list extra name m1 js';
        Ok (n :: ns, m2)
    end.

  Fixpoint sub_dict (extra : list pstr) (name : pstr) (m : memo) (kvs : list (pstr * json))
    : res (list node * memo) :=
    match kvs with
    | [] => Ok ([], m)
    | (k, j) :: kvs' =>
        do (n, m1) <- rec extra (SKey name k) m j;
        do (ns, m2) <- sub_dict extra name m1 kvs';
        Ok (n :: ns, m2)
    end.

  Definition or_empty (name : pstr) (l : leaf) (ns : list node) : list node :=
    match ns with [] => [Leaf (SOne name) l] | _ => ns end.

  (* state["content"][key] -> get_tree, stored under children[slotname] *)
  Definition content_child (extra : list pstr) (j : json) (key slotname : pstr) (m : memo)
    : res (node * memo) :=
    do c <- jindex j (K "content");
    do v <- jindex c key;
    rec extra (SOne slotname) m v.

  Definition build (sl : slot) (extra : list pstr) (tag : pstr) (k : kind) (m : memo) (j : json)
    : res (node * memo) :=
    let init := node_init sl k tag extra true m j JNull in
    let extra' := extra ++ down_extra E tag in
    (* ReduceNode.__init__ given the constructor's qualified name *)
    let reduce_node (cmod ccls : json) :=
      do (h, m0) <- init;
      do red <- jindex j (K "__reduce__");
      do c <- jindex j (K "content");
      do (attrs, m1) <- rec extra' (SOne (K "attrs")) m0 c;
      do a <- jindex red (K "args");
      do (args, m2) <- rec extra' (SOne (K "args")) m1 a;
      let ctor := Node {| h_slot := SOne (K "constructor"); h_kind := KType;
                          h_tag := K "_general.TypeNode"; h_id := None; h_extra := extra';
                          h_class := ccls; h_module := cmod; h_aux := JNull |} [] in
      Ok (Node h [attrs; args; ctor], m2) in
    match k with
    | KDict =>
        do (h, m0) <- init;
        do kt <- jindex j (K "key_types");
        do (ktn, m1) <- rec extra (SOne (K "key_types")) m0 kt;
        do c <- jindex j (K "content");
        do items <- jitems c;
        do (ns, m2) <- sub_dict extra (K "content") m1 items;
        Ok (Node h (ktn :: or_empty (K "content") LEmptyDict ns), m2)
    | KDefaultDict =>
        do (h, m0) <- init;
        do (a, m1) <- content_child extra j (K "main") (K "main") m0;
        do (b, m2) <- content_child extra j (K "default_factory") (K "default_factory") m1;
        Ok (Node h [a; b], m2)
    | KList | KSet | KTuple =>
        do (h, m0) <- init;
        do c <- jindex j (K "content");
        do items <- jiter c;
        do (ns, m1) <- sub_list extra (K "content") m0 items;
        Ok (Node h (or_empty (K "content") LEmptyList ns), m1)
    | KBytes | KBytearray =>
        do (h, m0) <- init;
        do f <- jindex j (K "file");
        do _ <- read_member E f;
        Ok (Node h [Leaf (SOne (K "content")) LBytes], m0)
    | KSlice =>
        do (h, m0) <- init;
        do c <- jindex j (K "content");
        do a <- jindex c (K "start");
        do b <- jindex c (K "stop");
        do d <- jindex c (K "step");
        Ok (Node h [Leaf (SOne (K "start")) (LRaw a); Leaf (SOne (K "stop")) (LRaw b);
                    Leaf (SOne (K "step")) (LRaw d)], m0)
    | KFunction | KType =>
        do (h, m0) <- init;
        Ok (Node h [], m0)
    | KFunctionV0 =>
        do (h, m0) <- init;
        do c <- jindex j (K "content");
        Ok (Node h [Leaf (SOne (K "content")) (LRaw c)], m0)
    | KMethod =>
        do (h, m0) <- init;
        do (o, m1) <- content_child extra j (K "obj") (K "obj") m0;
        do c <- jindex j (K "content");
        do f <- jindex c (K "func");
        Ok (Node h [o; Leaf (SOne (K "func")) (LRaw f)], m1)
    | KPartial =>
        do (h, m0) <- init;
        do (a, m1) <- content_child extra j (K "func") (K "func") m0;
        do (b, m2) <- content_child extra j (K "args") (K "args") m1;
        do (c, m3) <- content_child extra j (K "kwds") (K "kwds") m2;
        do (d, m4) <- content_child extra j (K "namespace") (K "namespace") m3;
        Ok (Node h [a; b; c; d], m4)
    | KCtorReduce | KDType | KRandomState =>
        do (h, m0) <- init;
        do c <- jindex j (K "content");
        do (n, m1) <- rec extra (SOne (K "content")) m0 c;
        Ok (Node h [n], m1)
    | KObject =>
        do (h, m0) <- init;
        do c <- jget j (K "content");
        match c with
        | JNull => Ok (Node h [Leaf (SOne (K "attrs")) LNone], m0)
        | _ => do (n, m1) <- rec extra (SOne (K "attrs")) m0 c;
               Ok (Node h [n], m1)
        end
    | KJson =>
        do (h, m0) <- init;
        do c <- jindex j (K "content");
        Ok (Node (set_aux h c) [], m0)
    | KOperatorFunc =>
        do (h, m0) <- init;
        do a <- jindex j (K "attrs");
        do (n, m1) <- rec extra (SOne (K "attrs")) m0 a;
        Ok (Node h [n], m1)
    | KNdArray =>
        do (h, m0) <- init;
        do ty <- jindex j (K "type");
        let h := set_aux h ty in
        if jstr_eqb ty (K "numpy") then
          do f <- jindex j (K "file");
          do _ <- read_member E f;
          Ok (Node h [Leaf (SOne (K "content")) LBytes], m0)
        else if jstr_eqb ty (K "json") then
          do c <- jindex j (K "content");
          do items <- jiter c;
          do (ns, m1) <- sub_list extra (K "content") m0 items;
          do sh <- jindex j (K "shape");
          do (shn, m2) <- rec extra (SOne (K "shape")) m1 sh;
          Ok (Node h (or_empty (K "content") LEmptyList ns ++ [shn]), m2)
        else Raise EValue
    | KMaskedArray =>
        do (h, m0) <- init;
        do (a, m1) <- content_child extra j (K "data") (K "data") m0;
        do (b, m2) <- content_child extra j (K "mask") (K "mask") m1;
        Ok (Node h [a; b], m2)
    | KRandomGenerator =>
        do (h, m0) <- init;
        do (a, m1) <- content_child extra j (K "bit_generator") (K "bit_generator_state") m0;
        do (b, m2) <- content_child extra j (K "seed_seq") (K "seed_seq_state") m1;
        Ok (Node h [a; b], m2)
    | KRandomGeneratorV1 =>
        do (h, m0) <- init;
        do (a, m1) <- content_child extra j (K "bit_generator") (K "bit_generator_state") m0;
        Ok (Node h [a], m1)
    | KRandomGeneratorV0 =>
        do (h, m0) <- init;
        do c <- jindex j (K "content");
        do b <- jindex c (K "bit_generator");
        Ok (Node h [Leaf (SOne (K "bit_generator_state")) (LRaw b)], m0)
    | KSparse =>
        do (h, m0) <- init;
        do ty <- jindex j (K "type");
        let h := set_aux h ty in
        if negb (jstr_eqb ty (K "scipy")) then Raise EType else
        do f <- jindex j (K "file");
        do _ <- read_member E f;
        Ok (Node h [Leaf (SOne (K "content")) LBytes], m0)
    | KTree => reduce_node (JStr (K "sklearn.tree._tree")) (JStr (K "Tree"))
    | KLoss =>
        (* the constructor is named by the state and only resolved in _construct *)
        do mm <- jindex j (K "__module__");
        do cc <- jindex j (K "__class__");
        reduce_node mm cc
    | KQuantileForest =>
        if mem tag (e_unavailable E) then Raise EImport else Raise EDomain
    | KCached =>
        do (h, m0) <- node_init sl k tag extra false m j JNull;
        do sid <- jget j (K "__id__");
        do _ <- jhash sid;
        Ok (Node h [], m0)
    end.
End GetTree.

(* get_tree(state, load_context, trusted) *)
Fixpoint get_tree (fuel : nat) (E : env) (proto : json)
         (extra : list pstr) (sl : slot) (m : memo) (j : json) : res (node * memo) :=
  match fuel with
  | O => Raise EFuel
  | S fuel' =>
      do sid <- jget j (K "__id__");
      do h <- jhash sid;
      if memo_mem h m then Ok (Ref sl h, m) else
      do loader <- jindex j (K "__loader__");
      do d <- dispatch (e_reg E) (e_cur E) loader proto;
      match d with
      | None =>
          (* the message formats state['__module__'] and state['__class__'] *)
          do _ <- jindex j (K "__module__");
          do _ <- jindex j (K "__class__");
          Raise (ENoLoader (show_json_short loader))
      | Some tag =>
          match kind_of_class tag with
          | None => Raise EOther
          | Some k => build E (get_tree fuel' E proto) sl extra tag k m j
          end
      end
  end.

Definition default_fuel : nat := 400.

(* the root call of load / loads / get_untrusted_types / visualize *)
Definition root_tree (E : env) (schema : json) : res (node * memo) :=
  do proto <- jindex schema (K "protocol");
  get_tree default_fuel E proto [] (SOne (K "root")) [] schema.
