(* Structural invariants of every tree get_tree builds. *)
From Skv Require Import PyStrFacts Node GetTree Unsafe NodeInd Families.

(* KTree/KLoss nodes carry [attrs; args; constructor TypeNode]; kinds whose audit ignores children
   only have raw leaves *)
Definition shape_ok (k : kind) (subs : list node) : bool :=
  match ukind_of k with
  | UGeneric =>
      match k with
      | KTree | KLoss =>
          match subs with
          | [_; _; Node hc []] => kind_eqb (h_kind hc) KType
          | _ => false
          end
      | _ => true
      end
  | _ => forallb is_leaf subs
  end.

Fixpoint wf_node (n : node) : bool :=
  match n with
  | Node h subs => shape_ok (h_kind h) subs && forallb wf_node subs
  | _ => true
  end.

Lemma wf_leafy n : wf_node n = true -> leafy n = true.
Proof.
  induction n as [h subs IH|sl id|sl l] using node_ind'; try reflexivity.
  cbn [wf_node leafy]. intros H. apply andb_true_iff in H as [H1 H2]. apply andb_true_iff. split.
  - unfold shape_ok in H1. destruct (ukind_of (h_kind h)); auto.
  - rewrite forallb_forall in *. rewrite Forall_forall in IH. intros x Hx. apply IH; auto.
Qed.

Lemma node_init_kind sl k tag extra b m j aux h m0 :
  node_init sl k tag extra b m j aux = Ok (h, m0) -> h_kind h = k.
Proof.
  unfold node_init. intros H.
  destruct (jindex j (K "__class__")) as [cc|]; cbn [bind] in H; [|discriminate H].
  destruct (jindex j (K "__module__")) as [cm|]; cbn [bind] in H; [|discriminate H].
  destruct (jget j (K "__id__")) as [sid|]; cbn [bind] in H; [|discriminate H].
  destruct (jtruthy sid && b).
  - destruct (jhash sid); cbn [bind] in H; [|discriminate H]. injection H as <- _. reflexivity.
  - injection H as <- _. reflexivity.
Qed.

Section Wf.
  Variable E : env.
  Variable rec : list pstr -> slot -> memo -> json -> res (node * memo).
  Hypothesis Hrec : forall extra sl m j t m', rec extra sl m j = Ok (t, m') -> wf_node t = true.

  Lemma sub_list_wf extra name : forall js m ns m',
    sub_list rec extra name m js = Ok (ns, m') -> forallb wf_node ns = true.
  Proof.
    induction js as [|j js IH]; intros m ns m' H; cbn [sub_list] in H.
    - injection H as <- _. reflexivity.
    - destruct (rec extra (SElem name) m j) as [[n m1]|] eqn:R; cbn [bind] in H; [|discriminate H].
      destruct (sub_list rec extra name m1 js) as [[ns' m2]|] eqn:S; cbn [bind] in H; [|discriminate H].
      injection H as <- _. cbn [forallb]. rewrite (Hrec _ _ _ _ _ _ R), (IH _ _ _ S). reflexivity.
  Qed.

  Lemma sub_dict_wf extra name : forall kvs m ns m',
    sub_dict rec extra name m kvs = Ok (ns, m') -> forallb wf_node ns = true.
  Proof.
    induction kvs as [|[k j] kvs IH]; intros m ns m' H; cbn [sub_dict] in H.
    - injection H as <- _. reflexivity.
    - destruct (rec extra (SKey name k) m j) as [[n m1]|] eqn:R; cbn [bind] in H; [|discriminate H].
      destruct (sub_dict rec extra name m1 kvs) as [[ns' m2]|] eqn:S; cbn [bind] in H; [|discriminate H].
      injection H as <- _. cbn [forallb]. rewrite (Hrec _ _ _ _ _ _ R), (IH _ _ _ S). reflexivity.
  Qed.

  Lemma or_empty_wf name l ns : forallb wf_node ns = true -> forallb wf_node (or_empty name l ns) = true.
  Proof. destruct ns; [reflexivity | auto]. Qed.

  Lemma content_child_wf extra j key slotname m n m' :
    content_child rec extra j key slotname m = Ok (n, m') -> wf_node n = true.
  Proof.
    unfold content_child. intros H.
    destruct (jindex j (K "content")) as [c|]; cbn [bind] in H; [|discriminate H].
    destruct (jindex c key) as [v|]; cbn [bind] in H; [|discriminate H].
    eapply Hrec; eauto.
  Qed.

  Ltac brk H :=
    repeat (cbn [bind] in H;
      match type of H with
      | bind ?r _ = Ok _ => let X := fresh "X" in destruct r eqn:X; cbn [bind] in H; [|discriminate H]
      | (let (_, _) := ?p in _) = Ok _ => destruct p
      | (match ?x with _ => _ end) = Ok _ => let X := fresh "X" in destruct x eqn:X; try discriminate H
      | (if ?b then _ else _) = Ok _ => let X := fresh "X" in destruct b eqn:X; try discriminate H
      end).

  Ltac fin :=
    repeat match goal with
    | |- _ && _ = true => apply andb_true_iff; split
    | |- true = true => reflexivity
    | |- forallb wf_node (_ :: _) = true => cbn [forallb]
    | |- forallb wf_node [] = true => reflexivity
    | |- forallb wf_node (_ ++ _) = true => rewrite forallb_app
    | |- forallb wf_node (or_empty _ _ _) = true => apply or_empty_wf
    | |- wf_node (Leaf _ _) = true => reflexivity
    | |- wf_node (Node _ []) = true => reflexivity
    | H : rec _ _ _ _ = Ok (?n, _) |- wf_node ?n = true => exact (Hrec _ _ _ _ _ _ H)
    | H : content_child _ _ _ _ _ _ = Ok (?n, _) |- wf_node ?n = true => exact (content_child_wf _ _ _ _ _ _ _ H)
    | H : sub_list _ _ _ _ _ = Ok (?ns, _) |- forallb wf_node ?ns = true => exact (sub_list_wf _ _ _ _ _ _ H)
    | H : sub_dict _ _ _ _ _ = Ok (?ns, _) |- forallb wf_node ?ns = true => exact (sub_dict_wf _ _ _ _ _ _ H)
    end.

  Lemma build_wf sl extra tag k m j t m' :
    build E rec sl extra tag k m j = Ok (t, m') -> wf_node t = true.
  Proof.
    intros H. destruct k; unfold build in H; cbv beta iota zeta in H; brk H;
      try (injection H as <- <-);
      repeat match goal with X : node_init _ ?k _ _ _ _ _ _ = Ok (?h, _) |- _ =>
        let K := fresh "K" in pose proof (node_init_kind _ _ _ _ _ _ _ _ _ _ X) as K; clear X end;
      cbn [wf_node set_aux h_kind];
      repeat match goal with K : h_kind ?h = _ |- _ => rewrite K; clear K end;
      cbn [shape_ok ukind_of is_leaf forallb kind_eqb h_kind andb]; fin.
  Qed.
End Wf.

Theorem get_tree_wf E proto : forall fuel extra sl m j t m',
  get_tree fuel E proto extra sl m j = Ok (t, m') -> wf_node t = true.
Proof.
  induction fuel as [|fuel IH]; intros extra sl m j t m' H; [discriminate H|].
  cbn [get_tree] in H.
  destruct (jget j (K "__id__")) as [sid|]; cbn [bind] in H; [|discriminate H].
  destruct (jhash sid) as [hk|]; cbn [bind] in H; [|discriminate H].
  destruct (memo_mem hk m); [injection H as <- _; reflexivity|].
  destruct (jindex j (K "__loader__")) as [loader|]; cbn [bind] in H; [|discriminate H].
  destruct (dispatch (e_reg E) (e_cur E) loader proto) as [[tag|]|]; cbn [bind] in H; try discriminate H.
  - destruct (kind_of_class tag) as [k|]; [|discriminate H].
    eapply build_wf; [|exact H]. intros; eapply IH; eauto.
  - destruct (jindex j (K "__module__")); cbn [bind] in H; [|discriminate H].
    destruct (jindex j (K "__class__")); cbn [bind] in H; discriminate H.
Qed.

Corollary root_tree_wf E schema t m : root_tree E schema = Ok (t, m) -> wf_node t = true.
Proof.
  unfold root_tree. destruct (jindex schema (K "protocol")); cbn [bind]; [|intros X; discriminate X].
  apply get_tree_wf.
Qed.
