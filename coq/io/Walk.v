(* visualize: walk_tree, _traverse_tree and the fallback (no rich) printer. *)
From Skv Require Export Unsafe.

Record row := {
  r_level : nat;
  r_key : pstr;
  r_val : pstr;
  r_self_safe : bool;
  r_safe : bool;
  r_last : bool
}.

Definition key_types_name : pstr := s "key_types".

(* Node.format() and its overrides in JsonNode / BytesNode / BytearrayNode *)
Definition node_format (h : hdr) : res pstr :=
  match h_kind h with
  | KJson =>
      match jfmt (h_aux h) with
      | Some c => Ok (s "json-type(" ++ c ++ s ")")
      | None => Raise EDomain
      end
  | KBytes => Ok (s "<bytes>")
  | KBytearray => Ok (s "bytearray(<bytes>)")
  | _ =>
      match jfmt (h_module h), jfmt (h_class h) with
      | Some m, Some c => Ok (qual m c)
      | _, _ => Raise EDomain
      end
  end.

(* format() as the node's own class implements it: the protocol-0 FunctionNode (D31-FunctionNode@0 repaired) shows the
   name it audits, _get_function_name() (KeyError / TypeError of a malformed content included) *)
Definition format_of (h : hdr) (subs : list node) : res pstr :=
  match h_kind h with
  | KFunctionV0 => function_name h subs
  | _ => node_format h
  end.

Definition is_skipped (E : env) (skipped : list pstr) (h : hdr) : bool :=
  mem (h_tag h) skipped
  (* BytearrayNode is a subclass of BytesNode: isinstance() sees both *)
  || (match h_kind h with KBytearray => mem (s "_general.BytesNode") skipped | _ => false end).

(* A generator's output: the rows yielded before it stops, and the exception that stopped it. *)
Definition stream := (list row * option err)%type.
Definition s_ok (rows : list row) : stream := (rows, None).
Definition s_err (e : err) : stream := ([], Some e).
Definition s_cons (r : row) (st : stream) : stream := (r :: fst st, snd st).
(* yield from a; then b -- b is not started when a raised *)
Definition s_app (a b : stream) : stream :=
  match snd a with
  | Some e => a
  | None => (fst a ++ fst b, snd b)
  end.
Definition s_concat {A} (f : A -> stream) (l : list A) : stream :=
  fold_right (fun x acc => s_app (f x) acc) (s_ok []) l.
Definition s_lift {A} (r : res A) (k : A -> stream) : stream :=
  match r with Ok a => k a | Raise e => s_err e end.

(* walk_tree on a raw (non-Node) child value: dicts and lists are iterated, None and str are skipped *)
Fixpoint walk_raw (j : json) : stream :=
  match j with
  | JObj kv => fold_right (fun p acc => s_app (walk_raw (snd p)) acc) (s_ok []) kv
  | JArr l => fold_right (fun x acc => s_app (walk_raw x) acc) (s_ok []) l
  | JNull | JStr _ => s_ok []          (* None and str children are skipped *)
  | _ => s_err EType
  end.

(* is the child at position i the last of its group (list / dict / children dict)? *)
Definition slot_name (sl : slot) : pstr :=
  match sl with SOne n => n | SElem n => n | SKey n _ => n end.
Definition slot_key (sl : slot) : pstr :=
  match sl with SOne n => n | SElem n => n | SKey _ k => k end.
Definition is_single (sl : slot) : bool := match sl with SOne _ => true | _ => false end.

Definition last_flags_step (n : node) (acc : list bool * option slot) : list bool * option slot :=
  let sl := node_slot n in
  let flag :=
    match snd acc with
    | None => true                                   (* last child slot *)
    | Some nxt =>
        if is_single sl then false                   (* a later slot exists *)
        else negb (pstr_eqb (slot_name nxt) (slot_name sl) && negb (is_single nxt))
    end in
  (flag :: fst acc, Some sl).
Definition last_flags (subs : list node) : list bool :=
  fst (fold_right last_flags_step ([], None) subs).

(* The implementation unrolls a cyclic graph until Python's recursion limit; rows of the second
   lap differ from the first (the root row is always shown, later occurrences obey `show`), later
   laps repeat the second.  The model unrolls every cycle twice before reporting RecursionError. *)
Fixpoint count_path (i : hkey) (path : list hkey) : nat :=
  match path with [] => O | x :: p => (if hkey_eqb i x then 1 else 0) + count_path i p end.
Definition twice_on_path (h : hdr) (path : list hkey) : bool :=
  match h_id h with Some i => Nat.leb 2 (count_path i path) | None => false end.

Section Walk.
  Variable E : env.
  Variable T : trust.
  Variable skipped : list pstr.
  Variable root : node.

  Fixpoint walk (fuel : nat) (path : list hkey) (name : pstr) (level : nat) (is_last : bool)
           (n : node) : stream :=
    match fuel with
    | O => s_err EFuel
    | S fuel' =>
        match n with
        | Leaf _ l =>
            match l with
            | LRaw j => walk_raw j
            | _ => s_ok []
            end
        | Ref _ id =>
            match find_id id root with
            | Some target => walk fuel' path name level is_last target
            | None => s_err EOther
            end
        | Node h subs =>
            s_lift (format_of h subs) (fun val =>
            s_lift (self_safe_of E T h subs) (fun ss =>
            s_lift (match h_kind h with KJson => Ok [] | _ => unsafe E T root n end) (fun u =>
            let r := {| r_level := level; r_key := name; r_val := val; r_self_safe := ss;
                        r_safe := match u with [] => true | _ => false end; r_last := is_last |} in
            s_cons r
              (if is_skipped E skipped h then s_ok [] else
               (* a DictNode's own key_types child is not shown when it is a safe ListNode (D32 repaired: otherwise it is shown like any other child) *)
               let descend (subs' : list node) :=
                 if twice_on_path h path then s_err ERecursion else
                 s_concat (fun p => walk fuel' (push_path h path) (slot_key (node_slot (fst p))) (S level) (snd p) (fst p))
                          (combine subs' (last_flags subs')) in
               match h_kind h with
               | KDict =>
                   match subs with
                   | kt :: rest =>
                       let kt' := match kt with
                                  | Ref _ id => match find_id id root with Some t => t | None => kt end
                                  | _ => kt
                                  end in
                       match kt' with
                       | Node hk _ =>
                           match h_kind hk with
                           | KList => s_lift (unsafe E T root kt')
                                        (fun uk => match uk with [] => descend rest | _ => descend subs end)
                           | _ => descend subs
                           end
                       | _ => descend subs
                       end
                   | [] => s_err EKey
                   end
               | _ => descend subs
               end))))
        end
    end.
End Walk.

Inductive show_mode := ShowAll | ShowUntrusted | ShowTrusted.

Definition visible (sh : show_mode) (r : row) : bool :=
  match sh with
  | ShowAll => true
  | ShowUntrusted => negb (r_safe r)
  | ShowTrusted => r_self_safe r
  end.

(* _get_node_label without colours: val + " [UNSAFE]" when not self-safe *)
Definition label (tag_safe tag_unsafe : pstr) (r : row) : pstr :=
  let tag := if r_self_safe r then tag_safe else tag_unsafe in
  match tag with [] => r_val r | _ => r_val r ++ 32%N :: tag end.

(* `hidden_level is not None and node.level > hidden_level`: the row lies below the row that was hidden last *)
Definition below_hidden (hidden : option nat) (r : row) : bool :=
  match hidden with Some hl => Nat.ltb hl (r_level r) | None => false end.

(* _traverse_tree consumes the row generator lazily: the first exception in stream order wins.
   `prev` is prev_level (the level of the row yielded last), `hidden` is hidden_level (D24 repaired: the level of the
   row hidden last; every following row deeper than that level is skipped without looking at its own visibility, the
   first row at that level or above resets it, and only then is the row's own visibility tested).  The level-difference
   ValueError is still in the code (traverse_preorder: unreachable on a pre-order stream). *)
Fixpoint traverse (sh : show_mode) (prev : nat) (hidden : option nat) (rows : list row) (tail_err : option err)
  : res (list row) :=
  match rows with
  | [] => match tail_err with Some e => Raise e | None => Ok [] end
  | r :: rs =>
      if below_hidden hidden r then traverse sh prev hidden rs tail_err
      else if negb (visible sh r) then traverse sh prev (Some (r_level r)) rs tail_err
      else if Nat.ltb (S prev) (r_level r) then Raise EValue
      else do rest <- traverse sh (r_level r) None rs tail_err; Ok (r :: rest)
  end.

(* the root row is yielded unconditionally; hidden_level starts as None *)
Definition traverse_all (sh : show_mode) (st : stream) : res (list row) :=
  match fst st with
  | [] => match snd st with Some e => Raise e | None => Raise EOther end   (* next() on an empty iterator *)
  | r :: rs => do rest <- traverse sh (r_level r) None rs (snd st); Ok (r :: rest)
  end.

Definition walk_fuel : nat := 2000.

(* the generator visualize hands to its sink *)
Definition visualize_stream (E : env) (skipped : list pstr) (schema : json) (T : trust) : res stream :=
  do (t, _) <- root_tree E schema;
  Ok (walk E T skipped t walk_fuel [] (s "root") 0 false t).

(* a sink that exhausts the generator (list(nodes)) *)
Definition visualize_rows (E : env) (skipped : list pstr) (schema : json) (T : trust)
  : res (list row) :=
  do st <- visualize_stream E skipped schema T;
  match snd st with Some e => Raise e | None => Ok (fst st) end.

(* the default sink: _traverse_tree over the generator *)
Definition visualize (E : env) (skipped : list pstr) (schema : json) (T : trust) (sh : show_mode)
  : res (list row) :=
  do st <- visualize_stream E skipped schema T;
  traverse_all sh st.
