(* Python values as the dumper can observe them (DESIGN 3.4).
   Everything that has identity carries an explicit label `id : Z` (the value of id(obj));
   two occurrences with the same label are the same object.  Array / sparse / bytes payloads
   are opaque tokens (numpy's and scipy's own codecs are trusted, not modelled).
   Results of the object's own methods (__reduce__(), __getstate__(), get_state(legacy=False),
   bit_generator.state, .data/.mask) are part of the value (observations); objects the dumper
   creates itself (key_types lists, tolist() results, dict(obj) copies, shape tuples, the dtype
   carrier array) get their labels from an allocator (CodecDump.v).
   Model only: proofs live in Codec*Facts.v. *)
From Skv Require Export Json.

Inductive scalar :=
| SNone
| SBool (b : bool)
| SInt (z : Z)
| SFloat (tok : pstr)          (* the float's JSON text: repr(x), "NaN", "Infinity", "-Infinity" *)
| SStr (t : pstr).

(* a dict key as dict_get_state sees it: type(key) by module/name, and the value after .item()
   (None: not one of str/int/float/bool/None, e.g. a tuple: json.dumps refuses it) *)
Record dkey := { k_mod : pstr; k_cls : pstr; k_val : option scalar }.

Inductive seqkind := QList | QTuple | QSet.

(* payload the object path of the dumper never looks at (frozenset / deque items) *)
Inductive hkind := HKNone | HKSet | HKSeq.

(* what object_get_state observes of an object json.dumps refuses *)
Inductive okind :=
| OKReduce        (* __reduce__() == (type(obj), args) *)
| OKState         (* __getstate__() result, or __dict__ *)
| OKNoState       (* neither __getstate__ nor __dict__ *)
| OKRaise (e : err).   (* __reduce__() / __getstate__() raises *)

(* slice bounds go into the schema raw: no identity *)
Inductive sbound :=
| BScalar (sc : scalar)
| BOther.                      (* not JSON-able: json.dumps(state) raises TypeError in _save *)

Inductive pval :=
| PScalar (id : Z) (sc : scalar)                       (* exact NoneType/bool/int/float/str *)
| PSub (id : Z) (m c : pstr) (sc : scalar)             (* instance of a subclass of int/float/str *)
| PBytes (id : Z) (ba : bool) (m c : pstr) (tok : pstr)  (* bytes (ba=false) / bytearray and subclasses *)
| PSeq (q : seqkind) (id : Z) (m c : pstr) (nt : bool) (items : list pval)
                                                       (* list/tuple/set and subclasses; nt = isnamedtuple(type) *)
| PDict (id : Z) (m c : pstr) (items : list (dkey * pval))   (* dict, OrderedDict, Counter, subclasses *)
| PDefDict (id : Z) (m c : pstr) (factory : pval) (items : list (dkey * pval))
| PProp (id : Z)                                       (* a property object *)
| PSlice (id : Z) (a b c : sbound)
| PArr (id : Z) (gen : bool) (m c : pstr) (tok : pstr) (* non-object ndarray (+subclasses) / np.generic (gen) *)
| PObjArr (id : Z) (m c : pstr) (shape : list Z) (cells : list pval)   (* dtype=object, cells in C order *)
| PMasked (id : Z) (m c : pstr) (data mask : pval)
| PDType (id : Z) (tok : pstr)
| PRandState (id : Z) (m c : pstr) (st : pval)         (* st = obj.get_state(legacy=False) *)
| PRandGen (id : Z) (m c : pstr) (bg ss : pval)        (* bit_generator.state, bit_generator.seed_seq.state *)
| PSparse (id : Z) (m c : pstr) (tok : pstr)
| PFunc (id : Z) (m c : pstr)                          (* FunctionType, np.ufunc, _ArrayFunctionDispatcher *)
| PType (id : Z) (m c : pstr)                          (* classes and builtin functions *)
| PPartial (id : Z) (m c : pstr) (func args kwds ns : pval)   (* __reduce__()[2] *)
| POpFunc (id : Z) (c : pstr) (attrs : pval)           (* attrgetter/itemgetter/methodcaller: __reduce__()[1] *)
| PMethod (id : Z) (m : pstr) (fname : pstr) (self : pval)
| PObj (id : Z) (m c : pstr) (hk : hkind) (hidden : list pval) (ok : okind) (arg : pval)
| PUnsup (id : Z) (m c : pstr).                        (* dispatches to unsupported_get_state *)

Definition pnone : pval := PScalar 0 SNone.

Definition pid (v : pval) : Z :=
  match v with
  | PScalar i _ | PSub i _ _ _ | PBytes i _ _ _ _ | PSeq _ i _ _ _ _ | PDict i _ _ _
  | PDefDict i _ _ _ _ | PProp i | PSlice i _ _ _ | PArr i _ _ _ _ | PObjArr i _ _ _ _
  | PMasked i _ _ _ _ | PDType i _ | PRandState i _ _ _ | PRandGen i _ _ _ _ | PSparse i _ _ _
  | PFunc i _ _ | PType i _ _ | PPartial i _ _ _ _ _ _ | POpFunc i _ _ | PMethod i _ _ _
  | PObj i _ _ _ _ _ _ | PUnsup i _ _ => i
  end.

(* ---------- decidable equality (boolean) ---------- *)
Definition opt_eqb {A} (f : A -> A -> bool) (a b : option A) : bool :=
  match a, b with Some x, Some y => f x y | None, None => true | _, _ => false end.

Definition scalar_eqb (a b : scalar) : bool :=
  match a, b with
  | SNone, SNone => true
  | SBool x, SBool y => Bool.eqb x y
  | SInt x, SInt y => Z.eqb x y
  | SFloat x, SFloat y => pstr_eqb x y
  | SStr x, SStr y => pstr_eqb x y
  | _, _ => false
  end.

Definition dkey_eqb (a b : dkey) : bool :=
  pstr_eqb (k_mod a) (k_mod b) && pstr_eqb (k_cls a) (k_cls b) && opt_eqb scalar_eqb (k_val a) (k_val b).

Definition seqkind_eqb (a b : seqkind) : bool :=
  match a, b with QList, QList | QTuple, QTuple | QSet, QSet => true | _, _ => false end.
Definition hkind_eqb (a b : hkind) : bool :=
  match a, b with HKNone, HKNone | HKSet, HKSet | HKSeq, HKSeq => true | _, _ => false end.
Fixpoint pstrs_eqb (a b : list pstr) : bool :=
  match a, b with
  | [], [] => true
  | x :: a', y :: b' => pstr_eqb x y && pstrs_eqb a' b'
  | _, _ => false
  end.
Definition err_eqb (a b : err) : bool :=
  match a, b with
  | EUntrusted x, EUntrusted y => pstrs_eqb x y
  | ENoLoader x, ENoLoader y => pstr_eqb x y
  | ETrustedTrue, ETrustedTrue | EKey, EKey | EType, EType | EValue, EValue | EAttr, EAttr | EImport, EImport
  | ERecursion, ERecursion | EUnsupported, EUnsupported | EOther, EOther | EFuel, EFuel | EDomain, EDomain => true
  | _, _ => false
  end.
Definition okind_eqb (a b : okind) : bool :=
  match a, b with
  | OKReduce, OKReduce | OKState, OKState | OKNoState, OKNoState => true
  | OKRaise x, OKRaise y => err_eqb x y
  | _, _ => false
  end.
Definition sbound_eqb (a b : sbound) : bool :=
  match a, b with BScalar x, BScalar y => scalar_eqb x y | BOther, BOther => true | _, _ => false end.

Fixpoint zlist_eqb (a b : list Z) : bool :=
  match a, b with
  | [], [] => true
  | x :: a', y :: b' => Z.eqb x y && zlist_eqb a' b'
  | _, _ => false
  end.

Fixpoint pval_eqb (a b : pval) {struct a} : bool :=
  let fix list_eqb (l1 l2 : list pval) {struct l1} : bool :=
    match l1, l2 with
    | [], [] => true
    | x :: l1', y :: l2' => pval_eqb x y && list_eqb l1' l2'
    | _, _ => false
    end in
  let fix items_eqb (l1 l2 : list (dkey * pval)) {struct l1} : bool :=
    match l1, l2 with
    | [], [] => true
    | (k1, x) :: l1', (k2, y) :: l2' => dkey_eqb k1 k2 && pval_eqb x y && items_eqb l1' l2'
    | _, _ => false
    end in
  match a, b with
  | PScalar i x, PScalar j y => Z.eqb i j && scalar_eqb x y
  | PSub i m c x, PSub j m' c' y => Z.eqb i j && pstr_eqb m m' && pstr_eqb c c' && scalar_eqb x y
  | PBytes i ba m c t, PBytes j ba' m' c' t' =>
      Z.eqb i j && Bool.eqb ba ba' && pstr_eqb m m' && pstr_eqb c c' && pstr_eqb t t'
  | PSeq q i m c nt l, PSeq q' j m' c' nt' l' =>
      seqkind_eqb q q' && Z.eqb i j && pstr_eqb m m' && pstr_eqb c c' && Bool.eqb nt nt' && list_eqb l l'
  | PDict i m c l, PDict j m' c' l' => Z.eqb i j && pstr_eqb m m' && pstr_eqb c c' && items_eqb l l'
  | PDefDict i m c f l, PDefDict j m' c' f' l' =>
      Z.eqb i j && pstr_eqb m m' && pstr_eqb c c' && pval_eqb f f' && items_eqb l l'
  | PProp i, PProp j => Z.eqb i j
  | PSlice i x y z, PSlice j x' y' z' => Z.eqb i j && sbound_eqb x x' && sbound_eqb y y' && sbound_eqb z z'
  | PArr i g m c t, PArr j g' m' c' t' =>
      Z.eqb i j && Bool.eqb g g' && pstr_eqb m m' && pstr_eqb c c' && pstr_eqb t t'
  | PObjArr i m c sh l, PObjArr j m' c' sh' l' =>
      Z.eqb i j && pstr_eqb m m' && pstr_eqb c c' && zlist_eqb sh sh' && list_eqb l l'
  | PMasked i m c d k, PMasked j m' c' d' k' =>
      Z.eqb i j && pstr_eqb m m' && pstr_eqb c c' && pval_eqb d d' && pval_eqb k k'
  | PDType i t, PDType j t' => Z.eqb i j && pstr_eqb t t'
  | PRandState i m c x, PRandState j m' c' y => Z.eqb i j && pstr_eqb m m' && pstr_eqb c c' && pval_eqb x y
  | PRandGen i m c x y, PRandGen j m' c' x' y' =>
      Z.eqb i j && pstr_eqb m m' && pstr_eqb c c' && pval_eqb x x' && pval_eqb y y'
  | PSparse i m c t, PSparse j m' c' t' => Z.eqb i j && pstr_eqb m m' && pstr_eqb c c' && pstr_eqb t t'
  | PFunc i m c, PFunc j m' c' => Z.eqb i j && pstr_eqb m m' && pstr_eqb c c'
  | PType i m c, PType j m' c' => Z.eqb i j && pstr_eqb m m' && pstr_eqb c c'
  | PPartial i m c f x k n, PPartial j m' c' f' x' k' n' =>
      Z.eqb i j && pstr_eqb m m' && pstr_eqb c c' && pval_eqb f f' && pval_eqb x x' && pval_eqb k k' && pval_eqb n n'
  | POpFunc i c x, POpFunc j c' y => Z.eqb i j && pstr_eqb c c' && pval_eqb x y
  | PMethod i m f x, PMethod j m' f' y => Z.eqb i j && pstr_eqb m m' && pstr_eqb f f' && pval_eqb x y
  | PObj i m c hk h ok x, PObj j m' c' hk' h' ok' y =>
      Z.eqb i j && pstr_eqb m m' && pstr_eqb c c' && hkind_eqb hk hk' && list_eqb h h' && okind_eqb ok ok' && pval_eqb x y
  | PUnsup i m c, PUnsup j m' c' => Z.eqb i j && pstr_eqb m m' && pstr_eqb c c'
  | _, _ => false
  end.

(* ---------- JSON text of scalars: json.dumps / json.loads on what JsonNode carries ---------- *)
Definition hexdigit (n : N) : N := if n <? 10 then 48 + n else 87 + n.     (* lowercase *)
Definition hex4 (c : N) : pstr :=
  [hexdigit (c / 4096 mod 16); hexdigit (c / 256 mod 16); hexdigit (c / 16 mod 16); hexdigit (c mod 16)].
Definition uesc (c : N) : pstr := 92 :: 117 :: hex4 c.      (* \uXXXX *)

(* json.encoder.py_encode_basestring_ascii, one code point *)
Definition esc_char (c : N) : pstr :=
  if c =? 34 then [92; 34] else
  if c =? 92 then [92; 92] else
  if c =? 10 then [92; 110] else
  if c =? 13 then [92; 114] else
  if c =? 9 then [92; 116] else
  if c =? 8 then [92; 98] else
  if c =? 12 then [92; 102] else
  if (32 <=? c) && (c <=? 126) then [c] else
  if c <? 65536 then uesc c else
  let v := c - 65536 in
  uesc (55296 + v / 1024) ++ uesc (56320 + v mod 1024).

Definition esc_str (t : pstr) : pstr := 34 :: flat_map esc_char t ++ [34].

Definition hexval (c : N) : option N :=
  if (48 <=? c) && (c <=? 57) then Some (c - 48)
  else if (97 <=? c) && (c <=? 102) then Some (c - 87)
  else if (65 <=? c) && (c <=? 70) then Some (c - 55)
  else None.
Definition hex4val (a b c d : N) : option N :=
  match hexval a, hexval b, hexval c, hexval d with
  | Some x, Some y, Some z, Some w => Some (((x * 16 + y) * 16 + z) * 16 + w)
  | _, _, _, _ => None
  end.
Definition is_hi (c : N) : bool := (55296 <=? c) && (c <=? 56319).
Definition is_lo (c : N) : bool := (56320 <=? c) && (c <=? 57343).

(* json.decoder.py_scanstring after the opening quote; a high surrogate escape directly followed
   by a low surrogate escape is JOINED into one code point *)
Fixpoint unesc (t : pstr) : option pstr :=
  match t with
  | [] => None                                    (* unterminated *)
  | c :: t1 =>
      if c =? 34 then match t1 with [] => Some [] | _ => None end else
      if c =? 92 then
        match t1 with
        | [] => None
        | e :: t2 =>
            if e =? 117 then
              match t2 with
              | a :: b :: c' :: d :: t6 =>
                  match hex4val a b c' d with
                  | None => None
                  | Some u =>
                      let plain := option_map (cons u) (unesc t6) in
                      if is_hi u then
                        match t6 with
                        | x1 :: x2 :: a2 :: b2 :: c2 :: d2 :: t12 =>
                            if (x1 =? 92) && (x2 =? 117) then
                              match hex4val a2 b2 c2 d2 with
                              | Some u2 =>
                                  if is_lo u2
                                  then option_map (cons (65536 + (u - 55296) * 1024 + (u2 - 56320))) (unesc t12)
                                  else plain
                              | None => plain
                              end
                            else plain
                        | _ => plain
                        end
                      else plain
                  end
              | _ => None
              end
            else
              let r := unesc t2 in
              if e =? 34 then option_map (cons 34) r else
              if e =? 92 then option_map (cons 92) r else
              if e =? 47 then option_map (cons 47) r else
              if e =? 110 then option_map (cons 10) r else
              if e =? 114 then option_map (cons 13) r else
              if e =? 116 then option_map (cons 9) r else
              if e =? 98 then option_map (cons 8) r else
              if e =? 102 then option_map (cons 12) r else None
        end
      else if c <? 32 then None else option_map (cons c) (unesc t1)
  end.

Definition is_digit (c : N) : bool := (48 <=? c) && (c <=? 57).
Fixpoint parse_digits (acc : Z) (t : pstr) : option Z :=
  match t with
  | [] => Some acc
  | c :: t' => if is_digit c then parse_digits (acc * 10 + Z.of_N (c - 48))%Z t' else None
  end.
(* a JSON integer literal / what int(str) accepts among the texts JSON keys can be *)
Definition parse_int (t : pstr) : option Z :=
  match t with
  | [] => None
  | c :: d =>
      if c =? 45 then match d with [] => None | _ => option_map Z.opp (parse_digits 0%Z d) end
      else parse_digits 0%Z t
  end.
Definition float_char (c : N) : bool :=
  is_digit c || (c =? 46) || (c =? 101) || (c =? 69) || (c =? 43) || (c =? 45).
Definition is_float_text (t : pstr) : bool :=
  match t with [] => false | _ => forallb float_char t && existsb (fun c => (c =? 46) || (c =? 101) || (c =? 69)) t end.
Definition special_float (t : pstr) : bool :=
  pstr_eqb t (s "NaN") || pstr_eqb t (s "Infinity") || pstr_eqb t (s "-Infinity").

Definition json_text (sc : scalar) : pstr :=
  match sc with
  | SNone => s "null"
  | SBool true => s "true"
  | SBool false => s "false"
  | SInt z => show_Z z
  | SFloat tok => tok
  | SStr t => esc_str t
  end.

(* json.loads on a scalar document *)
Definition json_parse (t : pstr) : res scalar :=
  match t with
  | 34 :: rest => match unesc rest with Some u => Ok (SStr u) | None => Raise EValue end
  | _ =>
      if pstr_eqb t (s "null") then Ok SNone else
      if pstr_eqb t (s "true") then Ok (SBool true) else
      if pstr_eqb t (s "false") then Ok (SBool false) else
      if special_float t then Ok (SFloat t) else
      match parse_int t with
      | Some z => Ok (SInt z)
      | None => if is_float_text t then Ok (SFloat t) else Raise EValue
      end
  end.

(* the scalar survives json.dumps/json.loads unchanged (decidable, by computation) *)
Definition scalar_rt_ok (sc : scalar) : bool :=
  match json_parse (json_text sc) with Ok sc' => scalar_eqb sc' sc | Raise _ => false end.

(* ---------- dict keys ---------- *)
Definition is_np_mod (m : pstr) : bool := pstr_eqb m (s "numpy").

(* the key json.dumps writes for content[key] *)
Definition key_text (sc : scalar) : pstr :=
  match sc with SStr t => t | _ => json_text sc end.

(* float(text) as a float token *)
Definition float_of_text (t : pstr) : option pstr :=
  if special_float t then Some t
  else if is_float_text t then Some t
  else match parse_int t with Some z => Some (show_Z z ++ s ".0") | None => None end.

Definition np_int_names : list pstr :=
  [s "int8"; s "int16"; s "int32"; s "int64"; s "uint8"; s "uint16"; s "uint32"; s "uint64"; s "intc"; s "longlong"].
Definition np_float_names : list pstr := [s "float16"; s "float32"; s "float64"; s "longdouble"].

(* k_type(key) in DictNode._construct, for the key types whose constructor is modelled *)
Definition coerce_key (m c : pstr) (text : pstr) : res scalar :=
  let q := qual m c in
  if pstr_eqb q (s "builtins.str") then Ok (SStr text) else
  if pstr_eqb q (s "builtins.bool") then Ok (SBool (pstr_eqb text (s "true"))) else      (* _construct_key: key == "true" *)
  if pstr_eqb q (s "builtins.int") || (is_np_mod m && mem c np_int_names) then
    match parse_int text with Some z => Ok (SInt z) | None => Raise EValue end else
  if pstr_eqb q (s "builtins.float") || (is_np_mod m && mem c np_float_names) then
    match float_of_text text with Some f => Ok (SFloat f) | None => Raise EValue end else
  if is_np_mod m && (pstr_eqb c (s "bool") || pstr_eqb c (s "bool_")) then Ok (SBool (pstr_eqb text (s "true"))) else
  if is_np_mod m && pstr_eqb c (s "str_") then Ok (SStr text) else
  Raise EDomain.

(* Python's == on keys, as far as dict insertion needs it: numbers compare by value across bool/int/float *)
Definition num_text (sc : scalar) : option pstr :=
  match sc with
  | SBool b => Some (if b then s "1.0" else s "0.0")
  | SInt z => Some (show_Z z ++ s ".0")
  | SFloat t => Some t
  | _ => None
  end.
Definition key_eq (a b : dkey) : bool :=
  match k_val a, k_val b with
  | Some SNone, Some SNone => true
  | Some (SStr x), Some (SStr y) => pstr_eqb x y
  | Some x, Some y =>
      match num_text x, num_text y with
      | Some u, Some v => pstr_eqb u v && negb (pstr_eqb u (s "NaN"))
      | _, _ => false
      end
  | _, _ => false
  end.

(* d[k] = v *)
Fixpoint dict_set {A} (k : dkey) (v : A) (d : list (dkey * A)) : list (dkey * A) :=
  match d with
  | [] => [(k, v)]
  | (k', v') :: d' => if key_eq k k' then (k', v) :: d' else (k', v') :: dict_set k v d'
  end.

(* JSON object construction as json.loads returns it for duplicate member names:
   position of the first, value of the last *)
Fixpoint jset (k : pstr) (v : json) (d : list (pstr * json)) : list (pstr * json) :=
  match d with
  | [] => [(k, v)]
  | (k', v') :: d' => if pstr_eqb k k' then (k', v) :: d' else (k', v') :: jset k v d'
  end.
