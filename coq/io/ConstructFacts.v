(* Every name resolution load performs after the audit was vouched for by the audit (C01). *)
From Skv Require Import PyStrFacts Node GetTree Unsafe UnsafeFacts AuditFacts NodeInd Families TreeWf TreeIds GraphAudit Walk Construct.

Definition resolves_own (k : kind) : bool :=
  match k with
  | KDict | KDefaultDict | KList | KSet | KTuple | KBytes | KBytearray | KCtorReduce | KRandomState | KObject | KOperatorFunc
  | KFunction | KType | KNdArray | KRandomGenerator | KRandomGeneratorV1 | KRandomGeneratorV0 => true
  | _ => false
  end.

(* where a gettype/_import_obj call takes its two names from *)
Definition site (h : hdr) (subs : list node) (m c : json) : Prop :=
  (m = h_module h /\ c = h_class h /\ resolves_own (h_kind h) = true)
  \/ (h_kind h = KFunctionV0 /\ exists sl cnt, subs = [Leaf sl (LRaw cnt)]
        /\ jindex cnt (s "module_path") = Ok m /\ jindex cnt (s "function") = Ok c).

Definition good (root : node) (te : tev) : Prop :=
  match snd te with
  | EvResolve m c => exists subs, sub (Node (fst te) subs) root /\ site (fst te) subs m c
  | _ => True
  end.

Lemma then_inv a f es d' :
  then_ a f = Ok (es, d') -> exists e1 d1 e2, a = Ok (e1, d1) /\ f d1 = Ok (e2, d') /\ es = e1 ++ e2.
Proof.
  unfold then_. destruct a as [[e1 d1]|]; cbn [bind]; [|intros X; discriminate X].
  destruct (f d1) as [[e2 d2]|] eqn:F; cbn [bind]; intros X; [|discriminate X].
  injection X as <- <-. exists e1, d1, e2. auto.
Qed.
Lemma emit_inv h e d es d' : emit h e d = Ok (es, d') -> es = [(h, e)] /\ d' = d.
Proof. unfold emit. intros X; injection X as <- <-. auto. Qed.
Lemma nothing_inv d es d' : nothing d = Ok (es, d') -> es = [] /\ d' = d.
Proof. unfold nothing. intros X; injection X as <- <-. auto. Qed.

Lemma firstn_In' {A} (x : A) : forall n l, In x (firstn n l) -> In x l.
Proof. induction n as [|n IH]; intros [|y l] H; simpl in H; try contradiction. destruct H as [->|H]; [left; reflexivity | right; apply IH; exact H]. Qed.

Section Good.
  Variable root : node.
  Variable subf : done -> node -> cres.

  Lemma seq_good ns : forall d es d',
    (forall d x es d', In x ns -> subf d x = Ok (es, d') -> Forall (good root) es) ->
    seq_nodes subf ns d = Ok (es, d') -> Forall (good root) es.
  Proof.
    induction ns as [|x ns IH]; intros d es d' Hs H; cbn [seq_nodes] in H.
    - apply nothing_inv in H as [-> _]. constructor.
    - apply then_inv in H as (e1 & d1 & e2 & A & B & ->). apply Forall_app. split.
      + eapply Hs; [left; reflexivity | exact A].
      + eapply IH; [|exact B]. intros; eapply Hs; [right; eassumption | eassumption].
  Qed.

  Ltac go :=
    repeat match goal with
    | H : then_ _ _ = Ok _ |- _ => apply then_inv in H as (? & ? & ? & ? & H & ?); subst; cbv beta in H
    | H : emit _ _ _ = Ok _ |- _ => apply emit_inv in H as [? ?]; subst
    | H : nothing _ = Ok _ |- _ => apply nothing_inv in H as [? ?]; subst
    end.

  Lemma body_good h subs d es d' :
    sub (Node h subs) root ->
    shape_ok (h_kind h) subs = true ->
    (forall d x es d', In x subs -> subf d x = Ok (es, d') -> Forall (good root) es) ->
    body h subs subf d = Ok (es, d') -> Forall (good root) es.
  Proof.
    intros Hsub Hshape Hs H.
    assert (OWN : resolves_own (h_kind h) = true -> good root (h, EvResolve (h_module h) (h_class h))).
    { intros R. cbn [good snd fst]. exists subs. split; [exact Hsub|]. left. auto. }
    assert (SEQ : forall ns d es d', (forall x, In x ns -> In x subs) -> seq_nodes subf ns d = Ok (es, d') -> Forall (good root) es).
    { intros ns d0 es0 d0' Hin Hq. eapply seq_good; [|exact Hq]. intros; eapply Hs; eauto. }
    unfold body in H. destruct (h_kind h) eqn:K; cbv beta iota zeta in H.
    all: try (go; repeat rewrite ?Forall_app; repeat split; try (constructor; [apply OWN; reflexivity | constructor]);
              try (eapply SEQ; [|eassumption]; auto); try (constructor; [exact I | constructor]); try constructor; fail).
    (* the kinds whose _construct picks children by position *)
    - (* KDict *)
      destruct subs as [|kt vals]; [go; constructor; [apply OWN; reflexivity | constructor]|].
      go. apply Forall_app. split; [constructor; [apply OWN; reflexivity | constructor]|].
      eapply SEQ; [|eassumption]. intros y [<-|Hy]; [left; reflexivity | right; eapply firstn_In'; eauto].
    - (* KDefaultDict *)
      destruct subs as [|a [|b [|? ?]]]; try (apply nothing_inv in H as [-> _]; constructor).
      go. repeat rewrite ?Forall_app. repeat split;
        try (eapply Hs; [|eassumption]; simpl; auto); constructor; [apply OWN; reflexivity | constructor].
    - (* KMethod *)
      destruct subs as [|o [|[?|?|sl [| |f| |]] [|? ?]]]; try (apply nothing_inv in H as [-> _]; constructor).
      go. repeat rewrite ?Forall_app. split; [eapply Hs; [|eassumption]; simpl; auto | constructor; [exact I | constructor]].
    - (* KNdArray *)
      destruct (jstr_eqb (h_aux h) (s "numpy")).
      + destruct (jqual (h_module h) (h_class h)) as [nm|]; [|apply nothing_inv in H as [-> _]; constructor].
        destruct (pstr_eqb nm (s "numpy.ndarray")); [apply nothing_inv in H as [-> _]; constructor|].
        go. constructor; [apply OWN; reflexivity | constructor].
      + destruct (rev subs) as [|sh cells] eqn:R; [apply nothing_inv in H as [-> _]; constructor|].
        assert (IN : forall x, In x (sh :: cells) -> In x subs) by (intros x Hx; apply in_rev; rewrite R; exact Hx).
        go. apply Forall_app. split.
        * eapply Hs; [|eassumption]. apply IN. left. reflexivity.
        * eapply SEQ; [|eassumption]. intros y Hy. apply IN. right. apply (proj2 (in_rev cells y)). exact Hy.
    - (* KRandomGenerator *)
      destruct subs as [|bg [|ss [|? ?]]]; try (apply nothing_inv in H as [-> _]; constructor).
      go. repeat rewrite ?Forall_app. repeat split;
        try (eapply Hs; [|eassumption]; simpl; auto);
        try (constructor; [exact I | constructor]); constructor; [apply OWN; reflexivity | constructor].
    - (* KTree *)
      destruct subs as [|attrs [|args [|[hc cs|?|?] [|? ?]]]]; try (apply nothing_inv in H as [-> _]; constructor).
      unfold shape_ok in Hshape. cbn [ukind_of] in Hshape. destruct cs; [|discriminate Hshape].
      assert (KT : h_kind hc = KType) by (destruct (h_kind hc); try discriminate Hshape; reflexivity).
      go. repeat rewrite ?Forall_app. repeat split; try (eapply Hs; [|eassumption]; simpl; auto).
      constructor; [|constructor]. cbn [good snd fst]. exists []. split.
      * eapply sub_child; [exact Hsub | simpl; auto].
      * left. rewrite KT. auto.
    - (* KLoss *)
      destruct subs as [|attrs [|args [|[hc cs|?|?] [|? ?]]]]; try (apply nothing_inv in H as [-> _]; constructor).
      unfold shape_ok in Hshape. cbn [ukind_of] in Hshape. destruct cs; [|discriminate Hshape].
      assert (KT : h_kind hc = KType) by (destruct (h_kind hc); try discriminate Hshape; reflexivity).
      go. repeat rewrite ?Forall_app. repeat split; try (eapply Hs; [|eassumption]; simpl; auto).
      constructor; [|constructor]. cbn [good snd fst]. exists []. split.
      * eapply sub_child; [exact Hsub | simpl; auto].
      * left. rewrite KT. auto.
    - (* KFunctionV0 *)
      destruct subs as [|[?|?|sl [| |cnt| |]] [|? ?]]; try (apply nothing_inv in H as [-> _]; constructor).
      destruct (jindex cnt (s "module_path")) as [m|] eqn:M; [|apply nothing_inv in H as [-> _]; constructor].
      destruct (jindex cnt (s "function")) as [f|] eqn:F; [|apply nothing_inv in H as [-> _]; constructor].
      go. constructor; [|constructor]. cbn [good snd fst]. eexists. split; [exact Hsub|]. right. split; [exact K|]. eauto.
    - (* KRandomGeneratorV0 *)
      destruct subs as [|[?|?|sl [| |b| |]] [|? ?]]; try (apply nothing_inv in H as [-> _]; constructor).
      destruct (jindex b (s "bit_generator")) as [a|]; [|apply nothing_inv in H as [-> _]; constructor].
      go. repeat rewrite ?Forall_app. repeat split;
        try (constructor; [exact I | constructor]); constructor; [apply OWN; reflexivity | constructor].
    - (* KRandomGeneratorV1 *)
      destruct subs as [|bg [|? ?]]; try (apply nothing_inv in H as [-> _]; constructor).
      go. repeat rewrite ?Forall_app. repeat split; try (eapply Hs; [|eassumption]; simpl; auto);
        try (constructor; [exact I | constructor]); constructor; [apply OWN; reflexivity | constructor].
  Qed.
End Good.

Lemma wf_sub r : forall n, sub n r -> wf_node r = true -> wf_node n = true.
Proof.
  intros n H. induction H as [|h subs x Hx Hs IH]; intros W; [exact W|].
  cbn [wf_node] in W. apply andb_true_iff in W as [_ W]. rewrite forallb_forall in W. apply IH. apply W. exact Hx.
Qed.

Lemma wf_shape h subs : wf_node (Node h subs) = true -> shape_ok (h_kind h) subs = true.
Proof. cbn [wf_node]. intros W. apply andb_true_iff in W as [W _]. exact W. Qed.

Theorem ctrace_good root :
  wf_node root = true ->
  forall fuel path d n es d', sub n root -> ctrace root fuel path d n = Ok (es, d') -> Forall (good root) es.
Proof.
  intros W. induction fuel as [|fuel IH]; intros path d n es d' Hs H; [discriminate H|].
  cbn [ctrace] in H. destruct n as [h subs|sl id|sl l].
  - assert (BG : forall p es0 d0 d0', body h subs (ctrace root fuel p) d0 = Ok (es0, d0') -> Forall (good root) es0).
    { intros p es0 d0 d0' Hb. eapply body_good; [exact Hs | apply wf_shape; eapply wf_sub; eauto | | exact Hb].
      intros d1 x es1 d1' Hx Hc. eapply IH; [eapply sub_child; eauto | exact Hc]. }
    destruct (h_id h) as [i|].
    + destruct (memo_mem i d); [apply nothing_inv in H as [-> _]; constructor|].
      destruct (memo_mem i path); [discriminate H|].
      destruct (body h subs (ctrace root fuel (i :: path)) d) as [[es0 d0]|] eqn:B; cbn [bind] in H; [|discriminate H].
      injection H as <- _. eapply BG; eauto.
    + eapply BG; eauto.
  - destruct (memo_mem id d); [apply nothing_inv in H as [-> _]; constructor|].
    destruct (find_id id root) as [target|] eqn:F; [|discriminate H].
    eapply IH; [eapply find_id_sub; eauto | exact H].
  - apply nothing_inv in H as [-> _]. constructor.
Qed.

Opaque unsafe_fuel default_fuel.

(* THE C01 THEOREM (resolution part): once load's audit has passed, every gettype/_import_obj call that
   construct() makes with names taken from the archive resolves a name that is in the trusted list
   of the very node making the call (caller's list + that node kind's defaults). *)
Theorem load_resolves_only_vouched E schema T t fuel es d :
  load_audit E schema (TList T) = Ok t ->
  ctrace t fuel [] [] t = Ok (es, d) ->
  forall h m c, In (h, EvResolve m c) es ->
  forall nm, jqual m c = Ok nm -> mem nm (node_trusted E T h) = true.
Proof.
  intros LA CT h m c Hin nm Hq.
  assert (W : wf_node t = true).
  { revert LA. unfold load_audit. destruct (root_tree E schema) as [[t0 m0]|] eqn:RT; cbn [bind]; [|intros X; discriminate X].
    destruct (untrusted_of E T t0) as [[|]|]; cbn [bind]; intros X; try discriminate X. injection X as <-.
    eapply root_tree_wf; eauto. }
  pose proof (ctrace_good t W fuel [] [] t es d (sub_refl t) CT) as G.
  rewrite Forall_forall in G. specialize (G _ Hin). cbn [good snd fst] in G.
  destruct G as [subs [Hs St]].
  pose proof (audit_pass_nothing_contributes E schema T t LA (Node h subs) nm Hs) as NC.
  destruct (mem nm (node_trusted E T h)) eqn:M; [reflexivity|]. exfalso. apply NC.
  destruct St as [[-> [-> R]]|[KV [sl [cnt [-> [Jm Jf]]]]]].
  - destruct (ukind_of (h_kind h)) eqn:UK.
    + destruct (h_kind h); discriminate.
    + destruct (h_kind h); discriminate.
    + (* FunctionNode: the audited name is f"{module}.{class}" *)
      cbn [contributes]. rewrite UK. unfold fn_unsafe, function_name.
      assert (KF : h_kind h = KFunction) by (destruct (h_kind h); try discriminate; reflexivity).
      rewrite KF. unfold jqual in Hq. destruct (h_module h) as [| | | |a| |]; try discriminate Hq.
      destruct (h_class h) as [| | | |b| |]; try discriminate Hq. injection Hq as <-.
      cbn [jfmt bind]. rewrite M. exists [qual a b]. split; [reflexivity | left; reflexivity].
    + apply generic_contributes; auto.
  - cbn [contributes]. rewrite KV. cbn [ukind_of]. unfold fn_unsafe, function_name. rewrite KV, Jm. cbn [bind].
    assert (Sm : exists a, m = JStr a) by (unfold jqual in Hq; destruct m; try discriminate Hq; eauto).
    destruct Sm as [a ->]. rewrite Jf. cbn [bind].
    rewrite Hq. cbn [bind]. rewrite M. exists [nm]. split; [reflexivity | left; reflexivity].
Qed.
