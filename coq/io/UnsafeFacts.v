(* Facts about the audit: the verdict with a trusted list T is the verdict without one,
   minus T -- for every archive, every T (C03). *)
From Skv Require Import PyStrFacts Unsafe.
From Coq Require Import Lia.

Definition notin (T : list pstr) (x : pstr) : bool := negb (mem x T).

Definition map_res {A B} (f : A -> B) (r : res A) : res B :=
  match r with Ok a => Ok (f a) | Raise e => Raise e end.

(* every node class builds its trusted list from the caller's list *)
Definition all_use_T (E : env) : bool :=
  forallb (fun e => fst (fst (snd e))) (e_classes E).

Lemma dget_In {A} k (d : list (pstr * A)) v : dget k d = Some v -> exists k', In (k', v) d.
Proof.
  induction d as [|[k0 v0] d IH]; simpl; [discriminate|].
  destruct (pstr_eqb k k0).
  - intros H; injection H as ->. exists k0. left. reflexivity.
  - intros H. destruct (IH H) as [k' Hk]. exists k'. right. exact Hk.
Qed.

Lemma uses_T_all E : all_use_T E = true -> forall tag, uses_T E tag = true.
Proof.
  intros H tag. unfold uses_T, cls_info.
  destruct (dget tag (e_classes E)) as [i|] eqn:G; [|reflexivity].
  apply dget_In in G as [k' Hk].
  unfold all_use_T in H. rewrite forallb_forall in H. exact (H _ Hk).
Qed.

Lemma node_trusted_some E T h :
  uses_T E (h_tag h) = true ->
  node_trusted E (Some T) h = T ++ node_trusted E None h.
Proof.
  intros U. unfold node_trusted. rewrite U. simpl. rewrite <- !app_assoc. reflexivity.
Qed.

Lemma filter_notin_single T x :
  filter (notin T) [x] = if mem x T then [] else [x].
Proof. simpl. unfold notin. destruct (mem x T); reflexivity. Qed.

Lemma own_unsafe_filter E T h :
  uses_T E (h_tag h) = true ->
  own_unsafe E (Some T) h = map_res (filter (notin T)) (own_unsafe E None h).
Proof.
  intros U. unfold own_unsafe, self_safe.
  destruct (kind_eqb (h_kind h) KJson); [reflexivity|].
  destruct (node_name h) as [nm|e]; [|reflexivity].
  cbn [bind]. rewrite (node_trusted_some E T h U), mem_app.
  destruct (mem nm (node_trusted E None h)) eqn:M.
  - rewrite orb_true_r. reflexivity.
  - rewrite orb_false_r. cbn [map_res]. rewrite filter_notin_single.
    destruct (mem nm T); reflexivity.
Qed.

Lemma fn_unsafe_filter E T h subs :
  uses_T E (h_tag h) = true ->
  fn_unsafe E (Some T) h subs = map_res (filter (notin T)) (fn_unsafe E None h subs).
Proof.
  intros U. unfold fn_unsafe.
  destruct (function_name h subs) as [fn|e]; [|reflexivity].
  cbn [bind]. rewrite (node_trusted_some E T h U), mem_app.
  destruct (mem fn (node_trusted E None h)) eqn:M.
  - rewrite orb_true_r. reflexivity.
  - rewrite orb_false_r. cbn [map_res]. rewrite filter_notin_single.
    destruct (mem fn T); reflexivity.
Qed.

Lemma concat_res_filter {A} (P : pstr -> bool) (f g : A -> res (list pstr)) l :
  (forall x, In x l -> f x = map_res (filter P) (g x)) ->
  concat_res (map f l) = map_res (filter P) (concat_res (map g l)).
Proof.
  induction l as [|x l IH]; intros H; [reflexivity|].
  cbn [map concat_res]. rewrite (H x (or_introl eq_refl)).
  destruct (g x) as [a|e]; [|reflexivity].
  cbn [map_res bind]. rewrite IH by (intros y Hy; apply H; right; exact Hy).
  destruct (concat_res (map g l)) as [b|e]; [|reflexivity].
  cbn [map_res bind]. rewrite filter_app. reflexivity.
Qed.

(* The audit with a trusted list is the audit without one, filtered -- same order, same
   exceptions, for every node graph, path and fuel. *)
Theorem unsafe_g_filter E T root :
  (forall tag, uses_T E tag = true) ->
  forall fuel path n,
    unsafe_g E (Some T) root fuel path n
    = map_res (filter (notin T)) (unsafe_g E None root fuel path n).
Proof.
  intros U fuel. induction fuel as [|fuel IH]; intros path n; [reflexivity|].
  cbn [unsafe_g]. destruct n as [h subs|sl id|sl l].
  - destruct (ukind_of (h_kind h)).
    + reflexivity.
    + apply own_unsafe_filter, U.
    + apply fn_unsafe_filter, U.
    + destruct (on_path h path); [reflexivity|].
      rewrite (own_unsafe_filter E T h (U _)).
      destruct (own_unsafe E None h) as [own|e]; [|reflexivity].
      cbn [map_res bind].
      rewrite (concat_res_filter (notin T) _ (unsafe_g E None root fuel (push_path h path)))
        by (intros x _; apply IH).
      destruct (concat_res _) as [rest|e]; [|reflexivity].
      cbn [map_res bind]. rewrite filter_app. reflexivity.
  - destruct (find_id id root); [apply IH | reflexivity].
  - destruct (leaf_unsafe l) as [a|e] eqn:L; [|reflexivity].
    cbn [map_res]. f_equal.
    destruct l as [| |j| |]; try (injection L as <-; reflexivity).
    destruct j as [| | | | |[|]|[|]]; simpl in L; try discriminate; injection L as <-; reflexivity.
Qed.

(* ---- sort_dedup is the sorted duplicate-free list of the same elements ---- *)
Lemma insert_sorted_In x y l : In y (insert_sorted x l) <-> y = x \/ In y l.
Proof.
  induction l as [|z l IH]; simpl.
  - split; [intros [H|H]; [left; auto | contradiction] | intros [H|H]; [left; auto | contradiction]].
  - destruct (pstr_eqb x z) eqn:E.
    + apply pstr_eqb_eq in E. subst. simpl. split; [intros [H|H]; auto | intros [H|[H|H]]; auto].
    + destruct (pstr_ltb x z); simpl.
      * split; [intros [H|[H|H]]; auto | intros [H|[H|H]]; auto].
      * rewrite IH. split; [intros [H|[H|H]]; auto | intros [H|[H|H]]; auto].
Qed.

Lemma sort_dedup_In y l : In y (sort_dedup l) <-> In y l.
Proof.
  induction l as [|x l IH]; simpl; [tauto|].
  unfold sort_dedup in *. simpl. rewrite insert_sorted_In, IH. split; intros [H|H]; auto.
Qed.

Lemma filter_notin_In T x l : In x (filter (notin T) l) <-> In x l /\ ~ In x T.
Proof.
  rewrite filter_In. unfold notin. rewrite negb_true_iff.
  split; intros [H1 H2]; split; auto.
  - intro H. apply mem_In in H. congruence.
  - destruct (mem x T) eqn:M; [|reflexivity]. apply mem_In in M. contradiction.
Qed.
