(* Structural induction on pval through the nested lists. *)
From Skv Require Import PyVal.

Definition is_leaf (v : pval) : bool :=
  match v with
  | PScalar _ _ | PSub _ _ _ _ | PBytes _ _ _ _ _ | PProp _ | PSlice _ _ _ _ | PArr _ _ _ _ _ | PDType _ _
  | PSparse _ _ _ _ | PFunc _ _ _ | PType _ _ _ | PUnsup _ _ _ => true
  | _ => false
  end.

Section PvalInd.
  Variable P : pval -> Prop.
  Hypothesis Hleaf : forall v, is_leaf v = true -> P v.
  Hypothesis HSeq : forall q id m c nt l, Forall P l -> P (PSeq q id m c nt l).
  Hypothesis HDict : forall id m c l, Forall (fun kv => P (snd kv)) l -> P (PDict id m c l).
  Hypothesis HDefDict : forall id m c f l, P f -> Forall (fun kv => P (snd kv)) l -> P (PDefDict id m c f l).
  Hypothesis HObjArr : forall id m c sh l, Forall P l -> P (PObjArr id m c sh l).
  Hypothesis HMasked : forall id m c d k, P d -> P k -> P (PMasked id m c d k).
  Hypothesis HRandState : forall id m c x, P x -> P (PRandState id m c x).
  Hypothesis HRandGen : forall id m c x y, P x -> P y -> P (PRandGen id m c x y).
  Hypothesis HPartial : forall id m c f a k n, P f -> P a -> P k -> P n -> P (PPartial id m c f a k n).
  Hypothesis HOpFunc : forall id c a, P a -> P (POpFunc id c a).
  Hypothesis HMethod : forall id m f x, P x -> P (PMethod id m f x).
  Hypothesis HObj : forall id m c hk h ok x, Forall P h -> P x -> P (PObj id m c hk h ok x).

  Fixpoint pval_ind' (v : pval) : P v :=
    let fix go (l : list pval) : Forall P l :=
      match l with [] => Forall_nil _ | x :: l' => Forall_cons _ (pval_ind' x) (go l') end in
    let fix goi (l : list (dkey * pval)) : Forall (fun kv => P (snd kv)) l :=
      match l with [] => Forall_nil _ | kv :: l' => Forall_cons _ (pval_ind' (snd kv)) (goi l') end in
    match v with
    | PScalar id sc => Hleaf (PScalar id sc) eq_refl
    | PSub id m c sc => Hleaf (PSub id m c sc) eq_refl
    | PBytes id ba m c t => Hleaf (PBytes id ba m c t) eq_refl
    | PSeq q id m c nt l => HSeq q id m c nt l (go l)
    | PDict id m c l => HDict id m c l (goi l)
    | PDefDict id m c f l => HDefDict id m c f l (pval_ind' f) (goi l)
    | PProp id => Hleaf (PProp id) eq_refl
    | PSlice id a b c => Hleaf (PSlice id a b c) eq_refl
    | PArr id g m c t => Hleaf (PArr id g m c t) eq_refl
    | PObjArr id m c sh l => HObjArr id m c sh l (go l)
    | PMasked id m c d k => HMasked id m c d k (pval_ind' d) (pval_ind' k)
    | PDType id t => Hleaf (PDType id t) eq_refl
    | PRandState id m c x => HRandState id m c x (pval_ind' x)
    | PRandGen id m c x y => HRandGen id m c x y (pval_ind' x) (pval_ind' y)
    | PSparse id m c t => Hleaf (PSparse id m c t) eq_refl
    | PFunc id m c => Hleaf (PFunc id m c) eq_refl
    | PType id m c => Hleaf (PType id m c) eq_refl
    | PPartial id m c f a k n => HPartial id m c f a k n (pval_ind' f) (pval_ind' a) (pval_ind' k) (pval_ind' n)
    | POpFunc id c a => HOpFunc id c a (pval_ind' a)
    | PMethod id m f x => HMethod id m f x (pval_ind' x)
    | PObj id m c hk h ok x => HObj id m c hk h ok x (go h) (pval_ind' x)
    | PUnsup id m c => Hleaf (PUnsup id m c) eq_refl
    end.
End PvalInd.
