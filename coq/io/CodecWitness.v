(* Hand-made values: witnesses of the corruption classes (C04 ..._refuted) and non-vacuity examples. Model only. *)
From Skv Require Export CodecGuards CodecWf.

Definition wd (cur : Z) : denv :=
  {| dn_tyids := [(s "builtins.str", 901%Z); (s "builtins.int", 902%Z); (s "builtins.bool", 903%Z);
                  (s "builtins.float", 904%Z); (s "numpy.int64", 905%Z); (s "numpy.float64", 906%Z)];
     dn_cur := cur; dn_version := s "0.0" |}.
Definition wf : cfacts :=
  {| f_namedtuples := [s "values.Point"]; f_generic := [s "numpy.float64"; s "numpy.int64"]; f_missing := [s "builtins.NoneType"];
     f_hkinds := [(s "builtins.frozenset", HKSet); (s "collections.deque", HKSeq)] |}.
Definition wbase : Z := 1000000%Z.

Definition kstr (t : string) : dkey := {| k_mod := s "builtins"; k_cls := s "str"; k_val := Some (SStr (s t)) |}.
Definition kint (z : Z) : dkey := {| k_mod := s "builtins"; k_cls := s "int"; k_val := Some (SInt z) |}.
Definition kbool (b : bool) : dkey := {| k_mod := s "builtins"; k_cls := s "bool"; k_val := Some (SBool b) |}.
Definition kfloat (t : string) : dkey := {| k_mod := s "builtins"; k_cls := s "float"; k_val := Some (SFloat (s t)) |}.
Definition knp64 (z : Z) : dkey := {| k_mod := s "numpy"; k_cls := s "int64"; k_val := Some (SInt z) |}.
Definition pint (z : Z) : pval := PScalar (small_int_base + z) (SInt z).
Definition pstr_ (id : Z) (t : string) : pval := PScalar id (SStr (s t)).
Definition plist (id : Z) (l : list pval) : pval := PSeq QList id (s "builtins") (s "list") false l.
Definition ptuple (id : Z) (l : list pval) : pval := PSeq QTuple id (s "builtins") (s "tuple") false l.
Definition pdict (id : Z) (l : list (dkey * pval)) : pval := PDict id (s "builtins") (s "dict") l.

(* D07  {False: 'x', True: 'y'} *)
Definition w_bool_keys : pval := pdict 1 [(kbool false, pstr_ 2 "x"); (kbool true, pstr_ 3 "y")].
(* D08 (repaired: the dump refuses)  {1: 'a', '1': 'b'} *)
Definition w_colliding_keys : pval := pdict 1 [(kint 1, pstr_ 2 "a"); (kstr "1", pstr_ 3 "b")].
(* further shapes of D08: {'1': 'a', 1: 'b'}, {1.5: 'a', '1.5': 'b'}, {True: 'a', 'true': 'b'}, a defaultdict, a dict
   below a list and behind an entry that IS written first *)
Definition w_colliding_more : list pval :=
  [pdict 1 [(kstr "1", pstr_ 2 "a"); (kint 1, pstr_ 3 "b")];
   pdict 1 [(kfloat "1.5", pstr_ 2 "a"); (kstr "1.5", pstr_ 3 "b")];
   pdict 1 [(kbool true, pstr_ 2 "a"); (kstr "true", pstr_ 3 "b")];
   PDefDict 1 (s "collections") (s "defaultdict") (PType 4 (s "builtins") (s "list")) [(kint 1, pstr_ 2 "a"); (kstr "1", pstr_ 3 "b")];
   plist 9 [pint 7; pdict 1 [(kstr "k", PBytes 5 false (s "builtins") (s "bytes") (s "78")); (kint 1, pstr_ 2 "a"); (kstr "z", pint 3); (kstr "1", pstr_ 3 "b")]]].
(* an earlier value's exception wins: {1: <unsupported>, '1': 'b'} raises UnsupportedTypeException, not ValueError;
   a later value is not serialised: {1: 'a', '1': <unsupported>} raises ValueError *)
Definition w_colliding_earlier_raises : pval := pdict 1 [(kint 1, PUnsup 2 (s "m") (s "C")); (kstr "1", pstr_ 3 "b")].
Definition w_colliding_later_unsup : pval := pdict 1 [(kint 1, pstr_ 2 "a"); (kstr "1", PUnsup 3 (s "m") (s "C"))].
(* a property value is skipped before its key is looked at: {1: property, '1': 'b'} has ONE kept key *)
Definition w_colliding_skipped : pval := pdict 1 [(kint 1, PProp 2); (kstr "1", pstr_ 3 "b")].
(* D09  frozenset({1}), deque([1, 2]) : __getstate__() is None, the items live elsewhere *)
Definition w_frozenset : pval := PObj 1 (s "builtins") (s "frozenset") HKSet [pint 1] OKState (PScalar 5 SNone).
Definition w_deque : pval := PObj 1 (s "collections") (s "deque") HKSeq [pint 1; pint 2] OKState (PScalar 5 SNone).
(* D10 (repaired)  a 2x2 object array whose cells are lists *)
Definition w_objarr_seq : pval :=
  PObjArr 1 (s "numpy") (s "ndarray") [2; 2]%Z
    [plist 2 [pint 1; pint 2]; plist 3 [pint 3; pint 4]; plist 4 [pint 5; pint 6]; plist 5 [pint 7; pint 8]].
(* further shapes of D10 / C13-F1: a rank-0 array holding a list; a rank-0 array holding the empty tuple (the very object that is
   its shape); shape (1,2,1) with a tuple and a list; shapes (2,0) and (0,2) (no cell: two empty lists / no list); a rank-0 array
   holding a dict; a (2,1) array holding a (1,2,1) array and a list that is also a cell of that array *)
Definition w_objarr_rank0 : pval := PObjArr 1 (s "numpy") (s "ndarray") [] [plist 2 [pint 1; pint 2]].
Definition w_objarr_20 : pval := PObjArr 1 (s "numpy") (s "ndarray") [2; 0]%Z [].
Definition w_objarr_more : list pval :=
  let sh := plist 2 [pint 1; pint 2] in
  let a121 := PObjArr 3 (s "numpy") (s "ndarray") [1; 2; 1]%Z [ptuple empty_tuple_id []; sh] in
  [w_objarr_rank0;
   PObjArr 1 (s "numpy") (s "ndarray") [] [ptuple empty_tuple_id []];
   a121; w_objarr_20;
   PObjArr 1 (s "numpy") (s "ndarray") [0; 2]%Z [];
   PObjArr 1 (s "numpy") (s "ndarray") [] [pdict 4 []];
   plist 9 [PObjArr 1 (s "numpy") (s "ndarray") [2; 1]%Z [a121; sh]; sh]].
(* D26  {'a': property(...), 'b': 2} *)
Definition w_property_value : pval := pdict 1 [(kstr "a", PProp 2); (kstr "b", pint 2)].
(* MyInt(5), MyStr('s') *)
Definition w_myint : pval := PSub 1 (s "values") (s "MyInt") (SInt 5).
Definition w_mystr : pval := PSub 1 (s "values") (s "MyStr") (SStr (s "s")).
(* class MyDefaultDict(defaultdict): MyDefaultDict(list, {'a': 1}) *)
Definition w_defaultdict_subclass : pval :=
  PDefDict 1 (s "values") (s "MyDefaultDict") (PType 2 (s "builtins") (s "list")) [(kstr "a", pint 1)].
(* class MyTuple(tuple): MyTuple((1, 2)) *)
Definition w_tuple_subclass : pval := PSeq QTuple 1 (s "values") (s "MyTuple") false [pint 1; pint 2].
(* a str holding a high and a low surrogate as two code points *)
Definition w_surrogates : pval := PScalar 1 (SStr [55357; 56832]%N).
(* C12-F1 (repaired with D08: the dump refuses before the second member is written)  {1: b'x', '1': b'y'} *)
Definition w_orphan_member : pval :=
  pdict 1 [(kint 1, PBytes 2 false (s "builtins") (s "bytes") (s "78")); (kstr "1", PBytes 3 false (s "builtins") (s "bytes") (s "79"))].

(* a nested supported value: dict / OrderedDict / defaultdict with str, int, float, numpy keys; tuple, set,
   bytes, slice, arrays, sparse, dtype, ufunc, type; the list and the small ints are shared *)
Definition w_nested : pval :=
  let shared := plist 10 [pint 1; PScalar 11 (SFloat (s "2.5")); pstr_ 12 "x"] in
  pdict 1
    [(kstr "a", shared);
     (kint 3, ptuple 13 [shared; pint 1; PScalar 14 SNone; PScalar 15 (SBool true)]);
     (kfloat "1.5", PSeq QSet 16 (s "builtins") (s "set") false [pint 7; pstr_ 17 "s"]);
     (knp64 4, PDict 18 (s "collections") (s "OrderedDict")
                 [(kstr "b", PBytes 19 false (s "builtins") (s "bytes") (s "6162"));
                  (kstr "c", PSlice 20 (BScalar (SInt 1)) (BScalar SNone) (BScalar (SInt 2)))]);
     (kstr "d", PDefDict 21 (s "collections") (s "defaultdict") (PType 22 (s "builtins") (s "list"))
                  [(kint 1, plist 23 [pint 2]); (kstr "k", PArr 24 false (s "numpy") (s "ndarray") (s "tok-f8-2x3-F"))]);
     (kstr "e", plist 25 [PSparse 26 (s "scipy.sparse._csr") (s "csr_matrix") (s "tok-csr"); PDType 27 (s "tok-dt");
                          PFunc 28 (s "numpy") (s "sqrt"); PType 29 (s "builtins") (s "int");
                          PArr 30 true (s "numpy") (s "float64") (s "tok-scalar")])].

(* user objects on the generic object path: a scipy sparse *array* (state = its __dict__); a user class whose state is a dict holding a
   list that also occurs outside the object; ONE object `o` reachable from three places (twice in a list, once as an attribute of
   another object) and from a __reduce__ argument tuple; states that are not dicts (a tuple, the int 0, False, None, the empty tuple);
   an object without state; a __reduce__ constructor object *)
Definition w_objects : pval :=
  let sh := plist 60 [pint 1; pstr_ 61 "x"] in
  let o := PObj 62 (s "values") (s "Plain") HKNone [] OKState
             (pdict 63 [(kstr "a", sh); (kstr "coef_", PArr 64 false (s "numpy") (s "ndarray") (s "tok-coef"))]) in
  let arr := PObj 65 (s "scipy.sparse._csr") (s "csr_array") HKNone [] OKState
               (pdict 66 [(kstr "_shape", ptuple 67 [pint 3; pint 4]); (kstr "data", PArr 68 false (s "numpy") (s "ndarray") (s "tok-data"));
                          (kstr "maxprint", pint 50)]) in
  ptuple 69 [plist 70 [o; sh; o]; arr;
             PObj 71 (s "values") (s "WithState") HKNone [] OKState (pdict 72 [(kstr "payload", o)]);
             PObj 73 (s "values") (s "FalsyState") HKNone [] OKState (ptuple 74 [pint 1; sh]);
             PObj 75 (s "values") (s "FalsyState") HKNone [] OKState (pint 0);
             PObj 76 (s "values") (s "FalsyState") HKNone [] OKState (PScalar 77 (SBool false));
             PObj 78 (s "values") (s "FalsyState") HKNone [] OKState (PScalar 79 SNone);
             PObj 80 (s "values") (s "FalsyState") HKNone [] OKState (ptuple empty_tuple_id []);
             PObj 81 (s "values") (s "NoState") HKNone [] OKNoState pnone;
             PObj 82 (s "values") (s "ReduceCtor") HKNone [] OKReduce (ptuple 83 [o; pint 0])].
