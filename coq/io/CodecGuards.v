(* Decidable predicates on values: the grammar of property C05 (`supported`), the guard of
   C04_faithful_or_refuses_partial (`c04_ok`).  Model only (boolean functions). *)
From Skv Require Export CodecShow.

Definition is_q (m c : pstr) (t : string) : bool := pstr_eqb (qual m c) (s t).

(* a key the property lists: str / int / float / numpy number, surviving json + k_type *)
Definition key_supported (k : dkey) : bool :=
  match k_val k with
  | None => false
  | Some sc =>
      (is_q (k_mod k) (k_cls k) "builtins.str" || is_q (k_mod k) (k_cls k) "builtins.int"
       || is_q (k_mod k) (k_cls k) "builtins.float"
       || (is_np_mod (k_mod k) && (mem (k_cls k) np_int_names || mem (k_cls k) np_float_names)))
      && match coerce_key (k_mod k) (k_cls k) (key_text sc) with
         | Ok sc' => scalar_eqb sc' sc
         | Raise _ => false
         end
  end.

Definition key_json_text (k : dkey) : pstr :=
  match k_val k with Some sc => key_text sc | None => [] end.

Fixpoint nodup_texts (l : list pstr) : bool :=
  match l with [] => true | x :: l' => negb (mem x l') && nodup_texts l' end.

Definition keys_supported (ks : list dkey) : bool :=
  forallb key_supported ks && nodup_texts (map key_json_text ks).

Definition bound_supported (b : sbound) : bool :=
  match b with
  | BScalar SNone | BScalar (SInt _) | BScalar (SBool _) | BScalar (SStr _) => true
  | _ => false
  end.

Section Supported.
  Variable F : cfacts.

  Definition resolvable (m c : pstr) : bool :=
    negb (mem (qual m c) (f_missing F)) && match m, c with [], _ | _, [] => false | _, _ => true end.

  (* the hidden-payload kind the loader re-derives from the class NAME (CodecLoad.hk_of over the facts of the load):
     frozenset / deque and whatever else f_hkinds lists carry items the object path never stores (finding D09) *)
  Definition hk_of_facts (m c : pstr) : hkind :=
    match dget (qual m c) (f_hkinds F) with Some k => k | None => HKNone end.
  (* a class the generic object path (object_get_state / ObjectNode / ConstructorFromReduceNode) handles completely: its
     name resolves at load and everything the object is lies in what __getstate__() / __dict__ / __reduce__()[1] hands out *)
  Definition plain_cls (m c : pstr) : bool :=
    resolvable m c && match hk_of_facts m c with HKNone => true | _ => false end.

  Fixpoint supported (v : pval) {struct v} : bool :=
    let fix all (l : list pval) {struct l} : bool :=
      match l with [] => true | x :: l' => supported x && all l' end in
    let fix vals (l : list (dkey * pval)) {struct l} : bool :=
      match l with [] => true | (_, x) :: l' => supported x && vals l' end in
    match v with
    | PScalar _ sc => scalar_rt_ok sc
    | PBytes _ ba m c _ => true                              (* subclasses keep their class (C04-F5 repaired) *)
    | PSeq q _ m c nt l =>
        negb nt && all l
        && match q with QList => is_q m c "builtins.list" | QTuple => is_q m c "builtins.tuple" | QSet => is_q m c "builtins.set" end
    | PDict _ m c l =>
        (is_q m c "builtins.dict" || is_q m c "collections.OrderedDict") && keys_supported (map fst l) && vals l
    | PDefDict _ m c f l =>
        is_q m c "collections.defaultdict" && keys_supported (map fst l) && vals l
        && match f with
           | PType _ fm fc => resolvable fm fc
           | PScalar _ SNone => true
           | _ => false
           end
    | PSlice _ a b c => bound_supported a && bound_supported b && bound_supported c
    | PArr _ gen m c _ =>
        if gen then is_np_mod m && mem (qual m c) (f_generic F) && resolvable m c
        else is_q m c "numpy.ndarray"
    | PObjArr _ m c shape cells =>
        (* every rank (0 included), zero-length axes included; the cells are any supported values (D10 / C13-F1 repaired) *)
        is_q m c "numpy.ndarray" && all cells && shape_okb shape (length cells)
    | PMasked _ m c d k =>
        is_q m c "numpy.ma.MaskedArray"
        && match d, k with
           | PArr _ false dm dc _, PArr _ false km kc _ => is_q dm dc "numpy.ndarray" && is_q km kc "numpy.ndarray"
           | _, _ => false
           end
    | PDType _ _ => true
    | PRandState _ m c st => resolvable m c && supported st
    | PRandGen _ m c bg ss => resolvable m c && supported bg && supported ss
    | PSparse _ _ _ _ => true
    | PFunc _ m c | PType _ m c => resolvable m c
    | PPartial _ m c f a k n =>
        is_q m c "functools.partial" && supported f && supported a && supported k && supported n
        && match a with PSeq QTuple _ _ _ _ _ => true | _ => false end
        && match k with PDict _ km kc _ => is_q km kc "builtins.dict" | _ => false end
    | POpFunc _ c a =>
        supported a
        && match a with
           | PSeq QTuple _ _ _ _ (PScalar _ (SStr _) :: _) => pstr_eqb c (s "attrgetter") || pstr_eqb c (s "itemgetter")
           | PSeq QTuple _ _ _ _ (_ :: _) => pstr_eqb c (s "itemgetter")
           | _ => false
           end
    | PObj _ m c HKNone [] ok arg =>
        (* GENERAL user objects (object_get_state): any class whose name resolves at load and that has no hidden payload
           (plain_cls).  scipy sparse *arrays* (csr_array, coo_array, ...: not spmatrix instances), estimators, pipelines,
           user classes all take this path.  What the value says of such an object is its class name and the state it
           hands out (DESIGN 3.4); that the class restores the state it is handed is the class's own contract.
           - OKState: arg = __getstate__() (or __dict__): ANY supported value -- a dict with str keys (the usual case), but
             also a tuple, a list, a number, a falsy value or None: ObjectNode._construct hands whatever construct() returns
             to __setstate__ (to __dict__.update when the class has no __setstate__), EXCEPT None, for which nothing is
             called; `not self.children["attrs"]` tests the child NODE (always truthy when there is a "content"), not the
             state, so False / 0 / () / {} / "" states do reach __setstate__;
           - OKNoState: neither __getstate__ nor __dict__ (no "content" in the state): cls.__new__(cls) only;
           - OKReduce: __reduce__() == (type(obj), args), args a builtin tuple of supported values
             (ConstructorFromReduceNode: the class called on the items of args) *)
        plain_cls m c
        && match ok with
           | OKState => supported arg
           | OKNoState => true
           | OKReduce => supported arg && match arg with PSeq QTuple _ am ac _ _ => is_q am ac "builtins.tuple" | _ => false end
           | OKRaise _ => false
           end
    | _ => false
    end.
End Supported.

Definition c05_case_supported (c : ccase) : bool := supported (cc_facts c) (cc_val c).
Definition c05_case_proved (c : ccase) : bool := false.

(* ---------- the guard of C04: no member of a known silent-corruption class inside v ---------- *)
Definition key_c04_ok (k : dkey) : bool :=
  match k_val k with
  | None => true                      (* json.dumps refuses the key: the dump raises *)
  | Some sc =>
      match coerce_key (k_mod k) (k_cls k) (key_text sc) with
      | Ok sc' => scalar_eqb sc' sc
      | Raise EDomain => false
      | Raise _ => true               (* k_type(key) raises at load: a refusal *)
      end
  end.
(* Two keys with the same JSON spelling are no longer excluded: dict_get_state refuses them (the repair of D08;
   CodecCollideFacts.same_spelling_always_raises).  What is left is the per-key condition: the key comes back from
   json + k_type(key) as itself, or json / k_type refuses it; a key type whose constructor is not modelled
   (EDomain: NoneType, tuple-free exotic classes) stays outside the guard. *)
Definition keys_c04_ok (ks : list dkey) : bool := forallb key_c04_ok ks.

(* the texts json stores the kept keys of a dict under, in order: property values are skipped before the key is
   looked at, a key json refuses (k_val = None) has no text *)
Definition dict_kept_texts (items : list (dkey * pval)) : list pstr :=
  flat_map (fun kv => if is_prop (snd kv) then [] else match k_val (fst kv) with Some sc => [key_text sc] | None => [] end) items.
(* two kept keys of the dict have the same JSON spelling *)
Definition same_spelling (items : list (dkey * pval)) : bool := negb (nodup_texts (dict_kept_texts items)).
Definition builtin_seq (m c : pstr) : bool :=
  is_q m c "builtins.list" || is_q m c "builtins.tuple" || is_q m c "builtins.set".

Section C04ok.
  Variable F : cfacts.
  Fixpoint c04_ok (v : pval) {struct v} : bool :=
    let fix all (l : list pval) {struct l} : bool :=
      match l with [] => true | x :: l' => c04_ok x && all l' end in
    let fix vals (l : list (dkey * pval)) {struct l} : bool :=
      match l with [] => true | (_, x) :: l' => negb (is_prop x) && c04_ok x && vals l' end in
    match v with
    | PScalar _ sc => scalar_rt_ok sc
    | PSub _ _ _ _ => false                                   (* class lost through json *)
    | PBytes _ ba m c _ => true                              (* subclasses keep their class (C04-F5 repaired) *)
    | PSeq q _ m c nt l =>
        all l
        && match q with
           | QList => is_q m c "builtins.list" || negb (builtin_seq m c)
           | QSet => is_q m c "builtins.set" || negb (builtin_seq m c)
           | QTuple => (is_q m c "builtins.tuple" && negb nt) || (nt && mem (qual m c) (f_namedtuples F))
                       || (negb nt && negb (builtin_seq m c))      (* C04-F3 repaired: other tuple subclasses keep their class *)
           end
    | PDict _ m c l => keys_c04_ok (map fst l) && vals l
    | PDefDict _ m c f l => keys_c04_ok (map fst l) && vals l && c04_ok f      (* subclasses keep their class (C04-F2 repaired) *)
    | PProp _ => true                                         (* the dump raises *)
    | PSlice _ a b c =>
        forallb (fun x => match x with BScalar (SFloat _) => false | _ => true end) [a; b; c]
    | PArr _ gen m c _ => if is_q m c "numpy.ndarray" then negb gen else Bool.eqb gen (mem (qual m c) (f_generic F))
    | PObjArr _ m c shape cells =>
        is_q m c "numpy.ndarray" && all cells && shape_okb shape (length cells)       (* D10 repaired: any rank, any cells *)
    | PMasked _ m c d k => is_q m c "numpy.ma.MaskedArray" && c04_ok d && c04_ok k
    | PDType _ _ | PSparse _ _ _ _ | PFunc _ _ _ | PType _ _ _ | PUnsup _ _ _ => true
    | PRandState _ _ _ st => c04_ok st
    | PRandGen _ _ _ bg ss => c04_ok bg && c04_ok ss
    | PPartial _ m c f a k n => is_q m c "functools.partial" && c04_ok f && c04_ok a && c04_ok k && c04_ok n
    | POpFunc _ _ a => c04_ok a
    | PMethod _ _ _ x => c04_ok x
    | PObj _ _ _ hk hidden ok x =>
        match hidden with [] => true | _ => match hk with HKNone => true | _ => false end end
        && match ok with OKRaise _ | OKNoState => true | _ => c04_ok x end
    end.
End C04ok.

Definition c04_case_ok (c : ccase) : bool := c04_ok (cc_facts c) (cc_val c).
(* loads(dumps(v)) raises somewhere or returns a value with the same abstraction *)
Definition c04_case_model_faithful (reg : registry) (cur : Z) (c : ccase) : bool :=
  match roundtrip reg cur (cc_facts c) (cc_denv c) (cc_base c) (cc_val c) with
  | Ok v' => pstr_eqb (show_val v') (show_val (cc_val c))
  | Raise _ => true
  end.
(* loads(dumps(v)) returns exactly v (labels included) *)
Definition c05_case_exact (reg : registry) (cur : Z) (c : ccase) : bool :=
  match roundtrip reg cur (cc_facts c) (cc_denv c) (cc_base c) (cc_val c) with
  | Ok v' => pval_eqb v' (cc_val c)
  | Raise _ => false
  end.
(* loads(dumps(v)) returns a value with the same abstraction (types, structure, values, sharing) *)
Definition c05_case_same (reg : registry) (cur : Z) (c : ccase) : bool :=
  match roundtrip reg cur (cc_facts c) (cc_denv c) (cc_base c) (cc_val c) with
  | Ok v' => pstr_eqb (show_val v') (show_val (cc_val c))
  | Raise _ => false
  end.
