(* C07: the abstract reduction of EstimatorsFacts.v instantiated with the REAL codec model.
   To skops an estimator is a value `PObj id m c HKNone [] OKState st`: the class name (m, c) and the state st the object hands
   out (__getstate__() / __dict__).  object_get_state writes the state below "content"; ObjectNode._construct resolves the
   name, builds cls.__new__(cls) and hands the constructed state to __setstate__ / __dict__.update.  The premise `codec` of
   reduction_object ("states round-trip up to iso") is a THEOREM for every state of the proved fragment (c05_guard):
   CodecRootFacts.root_roundtrip_total.  What stays a premise is what skops cannot know: that the class can be imported
   under its name, that it restores the state it hands out (its pickle contract) and that its methods are functions of class
   and state. *)
From Skv Require Import PyStrFacts CodecGuards CodecWfFacts CodecShareFacts CodecFacts CodecRootFacts PyValEqFacts.
From Skv Require Import Estimators EstimatorsFacts.
From Coq Require Import Lia Bool.

(* ---- an object of the fragment has its state in the fragment ---- *)
Lemma objs_wf_incl base U U' : incl U' U -> objs_wf base U = true -> objs_wf base U' = true.
Proof.
  unfold objs_wf. rewrite !forallb_forall. intros Hi H a Ha. specialize (H a (Hi a Ha)).
  apply andb_prop in H. destruct H as [H1 H2]. rewrite H1. cbn [andb]. rewrite forallb_forall in *.
  intros b Hb. apply H2. apply Hi. exact Hb.
Qed.

Lemma guard_obj_state F D base id m c st :
  c05_guard F D base (PObj id m c HKNone [] OKState st) = true -> c05_guard F D base st = true.
Proof.
  unfold c05_guard. intros H. apply andb_prop in H. destruct H as [H Hn]. apply andb_prop in H. destruct H as [Hf Hw].
  cbn [fragb] in Hf. apply andb_prop in Hf. destruct Hf as [_ Hfx]. rewrite Hfx. cbn [andb].
  assert (Hi : incl (objs D st) (objs D (PObj id m c HKNone [] OKState st))) by (intros y Hy; cbn [objs]; right; exact Hy).
  rewrite (objs_wf_incl base _ _ Hi Hw). cbn [andb].
  apply Nat.leb_le in Hn. apply Nat.leb_le. cbn [need] in Hn. lia.
Qed.

Lemma guard_obj_cls F D base id m c ok st :
  c05_guard F D base (PObj id m c HKNone [] ok st) = true -> plain_cls F m c = true.
Proof.
  unfold c05_guard. intros H. apply andb_prop in H. destruct H as [H _]. apply andb_prop in H. destruct H as [Hf _].
  cbn [fragb] in Hf. apply andb_prop in Hf. destruct Hf as [Hf _]. apply andb_prop in Hf. destruct Hf as [_ Hp]. exact Hp.
Qed.

Section CodecInstance.
  Variable reg : registry.
  Variable cur : Z.
  Variable F : cfacts.
  Variable D : denv.
  Variable base : Z.
  Hypothesis Hcur : dn_cur D = cur.
  Hypothesis Hreg : reg_ok reg cur = true.
  Hypothesis Hsane : facts_sane F = true.

  (* the estimator as a whole: the loader resolves the same class name and hands over a state equal to the one the object
     gave, identity labels (sharing) included *)
  Theorem estimator_roundtrip id m c st :
    c05_guard F D base (PObj id m c HKNone [] OKState st) = true ->
    roundtrip reg cur F D base (PObj id m c HKNone [] OKState st) = Ok (PObj id m c HKNone [] OKState st).
  Proof. intros Hg. exact (root_roundtrip_total reg cur F D base _ Hcur Hreg Hsane Hg). Qed.

  (* ---- the types of the abstract reduction ---- *)
  (* states: the values of the proved fragment *)
  Definition fstate : Type := { v : pval | c05_guard F D base v = true }.
  Definition fval (s : fstate) : pval := proj1_sig s.
  (* the wire: what dumps returns *)
  Definition fwire : Type := res archive.
  (* enc := dumps; dec := loads (of the archive dumps returned), accepted when the result lies in the fragment again *)
  Definition fenc (s : fstate) : fwire := dumps_model D base (fval s).
  Definition in_frag (v : pval) : option fstate :=
    match bool_dec (c05_guard F D base v) true with
    | left H => Some (exist _ v H)
    | right _ => None
    end.
  Definition fdec (w : fwire) : option fstate :=
    match w with
    | Ok a => match loads_model (cenv_of reg cur F a) (a_schema a) with Ok v' => in_frag v' | Raise _ => None end
    | Raise _ => None
    end.
  (* "same value": equal as labelled values -- types, structure, contents AND sharing *)
  Definition fiso (s s' : fstate) : Prop := fval s = fval s'.

  Lemma in_frag_some v : c05_guard F D base v = true -> exists s, in_frag v = Some s /\ fval s = v.
  Proof.
    intros Hg. unfold in_frag. destruct (bool_dec (c05_guard F D base v) true) as [H|H]; [|contradiction].
    eexists. split; reflexivity.
  Qed.

  (* the premise `codec` of the reduction HOLDS for every state of the fragment *)
  Theorem codec_premise_on_fragment : forall s : fstate, exists s', fdec (fenc s) = Some s' /\ fiso s s'.
  Proof.
    intros [v Hg]. unfold fenc, fdec, fiso. cbn [fval proj1_sig].
    pose proof (root_roundtrip_total reg cur F D base v Hcur Hreg Hsane Hg) as Hrt. unfold roundtrip in Hrt.
    destruct (dumps_model D base v) as [a|e]; cbn [bind] in Hrt; [|discriminate Hrt]. rewrite Hrt.
    destruct (in_frag_some v Hg) as [s' [-> Hs']]. exists s'. split; [reflexivity|symmetry; exact Hs'].
  Qed.

  (* the composed statement: state fidelity, hence output fidelity, with the codec premise discharged *)
  Theorem state_fidelity
      (cls name args input output : Type)
      (method : cls -> fstate -> input -> output) (empty : cls -> fstate)
      (getstate : cls -> fstate -> fstate) (setstate : cls -> fstate -> fstate -> fstate)
      (construct : cls -> args -> fstate) (name_of : cls -> name) (resolve : name -> option cls)
      (dec_args : fwire -> option args) :
    (forall c s s' x, fiso s s' -> method c s x = method c s' x) ->
    (forall c, resolve (name_of c) = Some c) ->
    (forall c s a, fiso (getstate c s) a -> fiso s (setstate c (empty c) a)) ->
    forall e : est cls fstate,
    exists e', load cls name fstate args fwire empty setstate construct resolve fdec dec_args
                    (dump_object cls name fstate fwire getstate name_of fenc e) = Some e'
      /\ e_cls _ _ e' = e_cls _ _ e /\ fval (e_state _ _ e) = fval (e_state _ _ e')
      /\ forall x, method (e_cls _ _ e') (e_state _ _ e') x = method (e_cls _ _ e) (e_state _ _ e) x.
  Proof.
    intros Hp Hr Hc e.
    exact (reduction_object cls name fstate args fwire input output method empty getstate setstate construct
             name_of resolve fenc fdec dec_args fiso Hp Hr codec_premise_on_fragment Hc e).
  Qed.
End CodecInstance.
