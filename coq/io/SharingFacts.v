(* Facts about the dump walk with an adversarial allocator and about the load (C06). *)
From Skv Require Import Sharing.
From Coq Require Import List Arith Bool Lia Permutation.
Import ListNotations.
Local Open Scope nat_scope.

Ltac splits := repeat match goal with |- _ /\ _ => split end.

(* ------------------------------------------------------------------ generic list facts *)
Lemma mem_nat_In a l : mem_nat a l = true <-> In a l.
Proof.
  unfold mem_nat. rewrite existsb_exists. split.
  - intros [x [Hx E]]. apply Nat.eqb_eq in E. subst. exact Hx.
  - intros H. exists a. split; [exact H | apply Nat.eqb_refl].
Qed.

Lemma mem_nat_false a l : mem_nat a l = false <-> ~ In a l.
Proof.
  rewrite <- mem_nat_In. destruct (mem_nat a l); split; intro H; try congruence.
Qed.

Lemma lookup_In {A} a (l : list (nat * A)) v : lookup a l = Some v -> In (a, v) l.
Proof.
  induction l as [|[b w] l IH]; simpl; [discriminate|].
  destruct (Nat.eqb a b) eqn:E.
  - apply Nat.eqb_eq in E. subst. intros H. injection H as ->. left. reflexivity.
  - intros H. right. apply IH, H.
Qed.

Lemma lookup_None {A} a (l : list (nat * A)) : lookup a l = None -> forall v, ~ In (a, v) l.
Proof.
  induction l as [|[b w] l IH]; simpl; [tauto|].
  destruct (Nat.eqb a b) eqn:E; [discriminate|].
  intros H v [H1|H1].
  - injection H1 as -> ->. rewrite Nat.eqb_refl in E. discriminate.
  - exact (IH H v H1).
Qed.

Lemma lookup_key {A} a (l : list (nat * A)) : In a (map fst l) -> exists v, lookup a l = Some v.
Proof.
  induction l as [|[b w] l IH]; simpl; [tauto|].
  destruct (Nat.eqb a b) eqn:E; [eauto|].
  intros [H|H]; [subst; rewrite Nat.eqb_refl in E; discriminate | apply IH, H].
Qed.

Lemma Forall2_nth {A B} (R : A -> B -> Prop) l1 l2 i x :
  Forall2 R l1 l2 -> nth_error l1 i = Some x -> exists y, nth_error l2 i = Some y /\ R x y.
Proof.
  intros F. revert i. induction F as [|a b l1 l2 Hab F IH]; intros [|i]; simpl; try discriminate.
  - intros H. injection H as ->. eauto.
  - apply IH.
Qed.

Lemma Forall2_length' {A B} (R : A -> B -> Prop) l1 l2 : Forall2 R l1 l2 -> length l1 = length l2.
Proof. induction 1; simpl; congruence. Qed.

Lemma Forall2_weaken {A B} (R R' : A -> B -> Prop) l1 l2 :
  (forall a b, R a b -> R' a b) -> Forall2 R l1 l2 -> Forall2 R' l1 l2.
Proof. intros H. induction 1; constructor; auto. Qed.

(* ------------------------------------------------------------------ induction on schemas *)
Section SchemaInd.
  Variable P : schema -> Prop.
  Hypothesis HN : forall a k kids, Forall P kids -> P (SNode a k kids).
  Fixpoint schema_ind' (s : schema) : P s :=
    match s with
    | SNode a k kids =>
        HN a k kids ((fix go (l : list schema) : Forall P l :=
                        match l with
                        | [] => Forall_nil P
                        | x :: l' => Forall_cons x (schema_ind' x) (go l')
                        end) kids)
    end.
End SchemaInd.

(* all nodes of a schema, pre-order *)
Fixpoint occ (s : schema) : list schema :=
  match s with SNode _ _ kids => s :: flat_map occ kids end.

Lemma occ_self s : In s (occ s).
Proof. destruct s. simpl. left. reflexivity. Qed.

(* ------------------------------------------------------------------ the load *)
Lemma load_tree_eq a k kids m :
  load_tree (SNode a k kids) m =
  if mem_nat a m then (LRef a, m)
  else let (ts, m') := load_forest kids (a :: m) in (LNode a k ts, m').
Proof. reflexivity. Qed.

Definition keys (lh : lheap) : list addr := map fst lh.

(* what one call of get_tree guarantees *)
Record load_spec (ss : list schema) (m : list addr) (ts : list ltree) (m' : list addr) : Prop := {
  ls_ids : map lid ts = map sid ss;
  ls_mono : incl m m';
  ls_roots : forall s, In s ss -> In (sid s) m';
  ls_from : forall a k ids, In (a, (k, ids)) (flat_map nodes_of ts) ->
            exists s ks, In s ss /\ In (SNode a k ks) (occ s) /\ ids = map sid ks;
  ls_closed : forall a k ids, In (a, (k, ids)) (flat_map nodes_of ts) ->
              In a m' /\ forall b, In b ids -> In b m';
  ls_new : forall a, In a m' -> In a m \/ In a (keys (flat_map nodes_of ts))
}.

Lemma load_spec_nil m : load_spec [] m [] m.
Proof.
  constructor; simpl; try tauto.
  - apply incl_refl.
Qed.

Lemma load_spec_cons s ss m t m1 ts m2 :
  load_spec [s] m [t] m1 -> load_spec ss m1 ts m2 -> load_spec (s :: ss) m (t :: ts) m2.
Proof.
  intros A B. constructor.
  - simpl. f_equal; [pose proof (ls_ids _ _ _ _ A) as H; simpl in H; congruence | apply (ls_ids _ _ _ _ B)].
  - eapply incl_tran; [apply (ls_mono _ _ _ _ A) | apply (ls_mono _ _ _ _ B)].
  - intros x [->|Hx].
    + apply (ls_mono _ _ _ _ B). apply (ls_roots _ _ _ _ A). left. reflexivity.
    + apply (ls_roots _ _ _ _ B), Hx.
  - intros a k ids H. simpl in H. apply in_app_or in H as [H|H].
    + destruct (ls_from _ _ _ _ A a k ids) as [x [ks [Hx [Ho E]]]]; [simpl; rewrite app_nil_r; exact H|].
      destruct Hx as [<-|[]]. exists s, ks. repeat split; auto. left. reflexivity.
    + destruct (ls_from _ _ _ _ B a k ids H) as [x [ks [Hx [Ho E]]]].
      exists x, ks. repeat split; auto. right. exact Hx.
  - intros a k ids H. simpl in H. apply in_app_or in H as [H|H].
    + destruct (ls_closed _ _ _ _ A a k ids) as [H1 H2]; [simpl; rewrite app_nil_r; exact H|].
      split; [apply (ls_mono _ _ _ _ B), H1 | intros b Hb; apply (ls_mono _ _ _ _ B), H2, Hb].
    + apply (ls_closed _ _ _ _ B a k ids H).
  - intros a H. destruct (ls_new _ _ _ _ B a H) as [H1|H1].
    + destruct (ls_new _ _ _ _ A a H1) as [H2|H2]; [left; exact H2|].
      right. simpl in *. rewrite app_nil_r in H2. unfold keys in *. rewrite map_app. apply in_or_app. left. exact H2.
    + right. simpl. unfold keys in *. rewrite map_app. apply in_or_app. right. exact H1.
Qed.

Lemma load_tree_spec s : forall m t m', load_tree s m = (t, m') -> load_spec [s] m [t] m'.
Proof.
  induction s as [a k kids IH] using schema_ind'. intros m t m' H.
  rewrite load_tree_eq in H. destruct (mem_nat a m) eqn:M.
  - injection H as <- <-. apply mem_nat_In in M. constructor; simpl; try tauto.
    + apply incl_refl.
    + intros s [<-|[]]. exact M.
  - (* the forest of children, from memo a :: m *)
    assert (F : forall ss m0 ts m1, Forall (fun s => forall m t m', load_tree s m = (t, m') -> load_spec [s] m [t] m') ss ->
                load_forest ss m0 = (ts, m1) -> load_spec ss m0 ts m1).
    { clear. induction ss as [|s ss IHs]; intros m0 ts m1 Hall Hf; simpl in Hf.
      - injection Hf as <- <-. apply load_spec_nil.
      - destruct (load_tree s m0) as [t mm] eqn:E1. destruct (load_forest ss mm) as [ts' mm'] eqn:E2.
        injection Hf as <- <-. inversion Hall as [|x l Hx Hl]; subst.
        apply load_spec_cons with (m1 := mm); [apply Hx, E1 | apply IHs; assumption]. }
    destruct (load_forest kids (a :: m)) as [ts m1] eqn:E. injection H as <- <-.
    specialize (F kids (a :: m) ts m1 IH E).
    constructor.
    + reflexivity.
    + intros x Hx. apply (ls_mono _ _ _ _ F). right. exact Hx.
    + intros s [<-|[]]. simpl. apply (ls_mono _ _ _ _ F). left. reflexivity.
    + intros a0 k0 ids H. simpl in H. rewrite app_nil_r in H. destruct H as [H|H].
      * injection H as <- <- <-. exists (SNode a k kids), kids. repeat split.
        -- left. reflexivity.
        -- simpl. left. reflexivity.
        -- apply (ls_ids _ _ _ _ F).
      * destruct (ls_from _ _ _ _ F a0 k0 ids H) as [x [ks [Hx [Ho E']]]].
        exists (SNode a k kids), ks. repeat split; auto.
        -- left. reflexivity.
        -- simpl. right. apply in_flat_map. exists x. split; assumption.
    + intros a0 k0 ids H. simpl in H. rewrite app_nil_r in H. destruct H as [H|H].
      * injection H as <- <- <-. split.
        -- apply (ls_mono _ _ _ _ F). left. reflexivity.
        -- intros b Hb. rewrite (ls_ids _ _ _ _ F) in Hb. apply in_map_iff in Hb as [x [<- Hx]].
           apply (ls_roots _ _ _ _ F), Hx.
      * apply (ls_closed _ _ _ _ F a0 k0 ids H).
    + intros a0 H. destruct (ls_new _ _ _ _ F a0 H) as [[<-|H1]|H1].
      * right. simpl. left. reflexivity.
      * left. exact H1.
      * right. simpl. rewrite app_nil_r. right. exact H1.
Qed.

(* the loaded graph of a whole schema: every entry comes from a schema node with that id, the root
   has an entry, and the children of an entry have entries *)
Lemma loads_from s a k ids :
  lookup a (loads s) = Some (k, ids) -> exists ks, In (SNode a k ks) (occ s) /\ ids = map sid ks.
Proof.
  intros H. apply lookup_In in H. unfold loads in H.
  destruct (load_tree s []) as [t m'] eqn:E. simpl in H.
  destruct (ls_from _ _ _ _ (load_tree_spec s _ _ _ E) a k ids) as [x [ks [[<-|[]] [Ho E']]]].
  - simpl. rewrite app_nil_r. exact H.
  - exists ks. split; assumption.
Qed.

Lemma loads_has s a :
  (a = sid s \/ exists b k ids, lookup b (loads s) = Some (k, ids) /\ In a ids) ->
  exists v, lookup a (loads s) = Some v.
Proof.
  intros H. unfold loads in *. destruct (load_tree s []) as [t m'] eqn:E. simpl in *.
  pose proof (load_tree_spec s _ _ _ E) as L.
  assert (Hm : In a m').
  { destruct H as [->|[b [k [ids [Hb Ha]]]]].
    - apply (ls_roots _ _ _ _ L). left. reflexivity.
    - apply lookup_In in Hb.
      destruct (ls_closed _ _ _ _ L b k ids) as [_ H2]; [simpl; rewrite app_nil_r; exact Hb|].
      apply H2, Ha. }
  destruct (ls_new _ _ _ _ L a Hm) as [[]|Hk].
  simpl in Hk. rewrite app_nil_r in Hk. apply lookup_key, Hk.
Qed.

(* ------------------------------------------------------------------ the dump, pinned *)
Section Pinned.
  Variable alloc : nat -> list addr -> addr.
  Hypothesis Hfresh : fresh alloc.
  Variable h : heap.
  Let nh := length h.

  Definition occs_ok_entry (occs : list (vobj * ref * schema)) (e : vobj * ref * schema) : Prop :=
    let '(v, r, n) := e in
    exists kids, node_of h r = Some (skind n, kids)
                 /\ Forall2 (fun kid s => exists v', In (v', kid, s) occs) kids (skids n).

  Record Inv (st : dstate) : Prop := {
    i_orig : forall o, o < nh -> In o (d_live st);
    i_memo : forall a v, In (a, v) (d_memo st) ->
             In a (d_live st) /\ (a < nh -> v = VOrig a) /\ (forall o, v = VOrig o -> a = o)
             /\ (forall s, v = VTmp s -> s < d_next st);
    i_memo_inj : forall a v a' v', In (a, v) (d_memo st) -> In (a', v') (d_memo st) -> (a = a' <-> v = v');
    i_live : forall v r n, In (v, r, n) (d_occs st) -> In (sid n) (d_live st);
    i_oorig : forall v o n, In (v, RObj o, n) (d_occs st) -> sid n = o /\ v = VOrig o /\ o < nh;
    i_otmp : forall v k kids n, In (v, RTmp k kids, n) (d_occs st) ->
             ~ sid n < nh /\ exists s, v = VTmp s /\ s < d_next st;
    i_inj : forall v r n v' r' n', In (v, r, n) (d_occs st) -> In (v', r', n') (d_occs st) ->
            (sid n = sid n' -> v = v' /\ r = r') /\ (v = v' -> sid n = sid n');
    i_pinned : forall v r n, In (v, r, n) (d_occs st) -> lookup (sid n) (d_memo st) = Some v;
    i_struct : forall e, In e (d_occs st) -> occs_ok_entry (d_occs st) e;
    i_files : forall a, In a (d_files st) <->
              exists v r n, In (v, r, n) (d_occs st) /\ sid n = a /\ is_file (skind n) = true;
    i_files_nodup : NoDup (d_files st)
  }.

  (* what a call leaves behind, relative to where it started; [from] = the refs it was called on *)
  Record Ext (from : list ref) (st st' : dstate) : Prop := {
    e_next : d_next st <= d_next st';
    e_live : incl (d_live st) (d_live st');
    e_occs : incl (d_occs st) (d_occs st');
    e_new : forall v r n, In (v, r, n) (d_occs st') ->
            In (v, r, n) (d_occs st)
            \/ ((sid n < nh \/ ~ In (sid n) (d_live st))
                /\ (forall s, v = VTmp s -> d_next st <= s)
                /\ exists r0 p, In r0 from /\ resolve h r0 p = Some r);
    e_memo : forall a v, lookup a (d_memo st) = Some v -> lookup a (d_memo st') = Some v
  }.

  Lemma Ext_refl from st : Ext from st st.
  Proof. constructor; auto using incl_refl. Qed.

  Lemma Ext_trans r rs st st1 st2 : Ext [r] st st1 -> Ext rs st1 st2 -> Ext (r :: rs) st st2.
  Proof.
    intros A B. constructor.
    - pose proof (e_next _ _ _ A). pose proof (e_next _ _ _ B). lia.
    - eapply incl_tran; [apply (e_live _ _ _ A) | apply (e_live _ _ _ B)].
    - eapply incl_tran; [apply (e_occs _ _ _ A) | apply (e_occs _ _ _ B)].
    - intros v r0 n H. destruct (e_new _ _ _ B v r0 n H) as [H1|[H1 [H2 [r1 [p [H3 H4]]]]]].
      + destruct (e_new _ _ _ A v r0 n H1) as [H5|[H5 [H6 [r1 [p [H7 H8]]]]]]; [left; exact H5|].
        right. repeat split; auto. exists r1, p. destruct H7 as [<-|[]]. split; [left; reflexivity | exact H8].
      + right. repeat split.
        * destruct H1 as [H1|H1]; [left; exact H1 | right; intro C; apply H1, (e_live _ _ _ A), C].
        * intros s E. pose proof (H2 s E). pose proof (e_next _ _ _ A). lia.
        * exists r1, p. split; [right; exact H3 | exact H4].
    - intros a v H. apply (e_memo _ _ _ B), (e_memo _ _ _ A), H.
  Qed.

  Lemma occs_ok_mono occs occs' e : incl occs occs' -> occs_ok_entry occs e -> occs_ok_entry occs' e.
  Proof.
    intros I. destruct e as [[v r] n]. intros [kids [H1 H2]]. exists kids. split; [exact H1|].
    eapply Forall2_weaken; [|exact H2]. intros kid s0 [v' Hv]. exists v'. apply I, Hv.
  Qed.

  Definition D := dump true alloc h.

  Record ListPost (rs : list ref) (st : dstate) (ns : list schema) (st' : dstate) : Prop := {
    lp_inv : Inv st';
    lp_ext : Ext rs st st';
    lp_occ : Forall2 (fun kid s => exists v, In (v, kid, s) (d_occs st')) rs ns
  }.

  Lemma dump_list_post rec :
    (forall r st n st', Inv st -> rec r st = Some (n, st') -> ListPost [r] st [n] st') ->
    forall rs st ns st', Inv st -> dump_list rec rs st = Some (ns, st') -> ListPost rs st ns st'.
  Proof.
    intros Hrec. induction rs as [|r rs IH]; intros st ns st' I H; simpl in H.
    - injection H as <- <-. constructor; [exact I | apply Ext_refl | constructor].
    - destruct (rec r st) as [[n st1]|] eqn:E1; [|discriminate].
      destruct (dump_list rec rs st1) as [[ns' st2]|] eqn:E2; [|discriminate].
      injection H as <- <-.
      pose proof (Hrec _ _ _ _ I E1) as A. pose proof (IH _ _ _ (lp_inv _ _ _ _ A) E2) as B.
      constructor.
      + apply (lp_inv _ _ _ _ B).
      + eapply Ext_trans; [apply (lp_ext _ _ _ _ A) | apply (lp_ext _ _ _ _ B)].
      + constructor; [|apply (lp_occ _ _ _ _ B)].
        pose proof (lp_occ _ _ _ _ A) as F. inversion F as [|? ? ? ? [v Hv] ?]; subst.
        exists v. apply (e_occs _ _ _ (lp_ext _ _ _ _ B)), Hv.
  Qed.

  (* the state after [enter] + [memoize] *)
  Lemma Inv_enter r st k kids a v st1 :
    Inv st -> node_of h r = Some (k, kids) -> enter alloc r st = (a, v, st1) ->
    let st2 := memoize true a v st1 in
    Inv st2 /\ d_occs st2 = d_occs st /\ d_files st2 = d_files st /\ incl (d_live st) (d_live st2)
    /\ d_next st <= d_next st2 /\ lookup a (d_memo st2) = Some v /\ In a (d_live st2)
    /\ (forall b w, lookup b (d_memo st) = Some w -> lookup b (d_memo st2) = Some w)
    /\ match r with
       | RObj o => a = o /\ v = VOrig o /\ o < nh /\ d_live st2 = d_live st /\ d_next st2 = d_next st
       | RTmp _ _ => ~ In a (d_live st) /\ v = VTmp (d_next st) /\ d_live st2 = a :: d_live st
                     /\ d_next st2 = S (d_next st)
       end.
  Proof.
    intros I Hn He. destruct r as [o|k0 kids0]; simpl in He.
    - injection He as <- <- <-. simpl in Hn.
      destruct (nth_error h o) as [ob|] eqn:Eo; [|discriminate].
      assert (Ho : o < nh) by (apply nth_error_Some; congruence).
      unfold memoize. destruct (lookup o (d_memo st)) as [w|] eqn:L.
      + assert (w = VOrig o) by (apply lookup_In in L; apply (i_memo _ I) in L; tauto). subst w.
        simpl. splits; auto using incl_refl. apply (i_orig _ I), Ho.
      + simpl. splits; auto using incl_refl.
        * constructor; simpl; try apply I.
          -- intros a v [H|H]; [injection H as <- <-|apply (i_memo _ I), H].
             splits; auto; try congruence. apply (i_orig _ I), Ho.
          -- intros a v a' v' [H|H] [H'|H'].
             ++ injection H as <- <-. injection H' as <- <-. tauto.
             ++ injection H as <- <-. split; intro E.
                ** subst a'. exfalso. eapply lookup_None; eauto.
                ** subst v'. apply (i_memo _ I) in H'. destruct H' as [_ [_ [H' _]]]. symmetry. apply H'. reflexivity.
             ++ injection H' as <- <-. split; intro E.
                ** subst a. exfalso. eapply lookup_None; eauto.
                ** subst v. apply (i_memo _ I) in H. destruct H as [_ [_ [H _]]]. apply H. reflexivity.
             ++ apply (i_memo_inj _ I); assumption.
          -- intros v r n H. destruct (Nat.eqb (sid n) o) eqn:E; [|apply (i_pinned _ I _ _ _ H)].
             apply Nat.eqb_eq in E. pose proof (i_pinned _ I _ _ _ H) as P. rewrite E in P. congruence.
        * rewrite Nat.eqb_refl. reflexivity.
        * apply (i_orig _ I), Ho.
        * intros b w Hb. destruct (Nat.eqb b o) eqn:E; [|exact Hb]. apply Nat.eqb_eq in E. congruence.
    - injection He as <- <- <-.
      set (a := alloc (d_next st) (d_live st)).
      assert (Ha : ~ In a (d_live st)) by apply Hfresh.
      assert (L : lookup a (d_memo st) = None).
      { destruct (lookup a (d_memo st)) as [w|] eqn:L; [|reflexivity].
        apply lookup_In in L. apply (i_memo _ I) in L. tauto. }
      unfold memoize. simpl. fold a. rewrite L. simpl.
      assert (Hnh : ~ a < nh) by (intro C; apply Ha, (i_orig _ I), C).
      splits; auto.
      + constructor; simpl.
        * intros o Ho. right. apply (i_orig _ I), Ho.
        * intros a0 v [H|H].
          -- injection H as <- <-. splits; try tauto; try congruence.
             intros s E. injection E as <-. lia.
          -- destruct (i_memo _ I _ _ H) as [H1 [H2 [H3 H4]]]. splits; auto.
             intros s E. pose proof (H4 s E). lia.
        * intros a0 v a' v' [H|H] [H'|H'].
          -- injection H as <- <-. injection H' as <- <-. tauto.
          -- injection H as <- <-. split; intro E.
             ++ subst a'. exfalso. eapply lookup_None; eauto.
             ++ subst v'. apply (i_memo _ I) in H'. destruct H' as [_ [_ [_ H']]]. specialize (H' _ eq_refl). lia.
          -- injection H' as <- <-. split; intro E.
             ++ subst a0. exfalso. eapply lookup_None; eauto.
             ++ subst v. apply (i_memo _ I) in H. destruct H as [_ [_ [_ H]]]. specialize (H _ eq_refl). lia.
          -- apply (i_memo_inj _ I); assumption.
        * intros v r n H. right. apply (i_live _ I _ _ _ H).
        * apply (i_oorig _ I).
        * intros v k1 kids1 n H. destruct (i_otmp _ I _ _ _ _ H) as [H1 [s [H2 H3]]].
          split; [exact H1|]. exists s. split; [exact H2 | lia].
        * apply (i_inj _ I).
        * intros v r n H. destruct (Nat.eqb (sid n) a) eqn:E; [|apply (i_pinned _ I _ _ _ H)].
          apply Nat.eqb_eq in E. exfalso. apply Ha. rewrite <- E. apply (i_live _ I _ _ _ H).
        * apply (i_struct _ I).
        * apply (i_files _ I).
        * apply (i_files_nodup _ I).
      + apply incl_tl, incl_refl.
      + rewrite Nat.eqb_refl. reflexivity.
      + intros b w Hb. destruct (Nat.eqb b a) eqn:E; [|exact Hb]. apply Nat.eqb_eq in E. congruence.
  Qed.

  Lemma write_file_fields k a st :
    let st' := write_file k a st in
    d_next st' = d_next st /\ d_live st' = d_live st /\ d_memo st' = d_memo st /\ d_occs st' = d_occs st
    /\ (forall x, In x (d_files st') <-> In x (d_files st) \/ (x = a /\ is_file k = true))
    /\ (NoDup (d_files st) -> NoDup (d_files st')).
  Proof.
    unfold write_file. destruct (is_file k) eqn:F; simpl.
    - destruct (mem_nat a (d_files st)) eqn:M; simpl.
      + apply mem_nat_In in M. splits; auto. intros x. split; [tauto|]. intros [H|[-> _]]; assumption.
      + apply mem_nat_false in M. splits; auto.
        * intros x. split; [intros [<-|H]; tauto | intros [H|[-> _]]; [right; exact H | left; reflexivity]].
        * intros N. constructor; assumption.
    - splits; auto. intros x. split; [tauto|]. intros [H|[_ H]]; [exact H | discriminate].
  Qed.

  Lemma dump_post fuel : forall r st n st',
    Inv st -> D fuel r st = Some (n, st') -> ListPost [r] st [n] st'.
  Proof.
    induction fuel as [|fuel IH]; intros r st n st' I H; [discriminate|].
    unfold D in H. simpl in H. unfold dump_body in H. fold (D fuel) in H.
    destruct (node_of h r) as [[k kids]|] eqn:Hn; [|discriminate].
    destruct (enter alloc r st) as [[a v] st1] eqn:He.
    destruct (Inv_enter r st k kids a v st1 I Hn He) as [I2 [Ho2 [Hf2 [Hl2 [Hx2 [Hm2 [Ha2 [Hmm2 Hr]]]]]]]].
    set (st2 := memoize true a v st1) in *.
    destruct (dump_list (D fuel) kids st2) as [[ks st3]|] eqn:El; [|discriminate].
    injection H as <- <-.
    pose proof (dump_list_post (D fuel) IH kids st2 ks st3 I2 El) as [I3 E3 F3].
    destruct (write_file_fields k a st3) as [W1 [W2 [W3 [W4 [W5 W6]]]]].
    set (stw := write_file k a st3) in *.
    set (n := SNode a k ks).
    (* facts about the new entry against the entries that were already there *)
    assert (Hold : forall v' r' n', In (v', r', n') (d_occs st3) ->
                   (a = sid n' -> v = v' /\ r = r') /\ (v = v' -> a = sid n')).
    { intros v' r' n' Hin. destruct r as [o|k0 kids0].
      - destruct Hr as [-> [-> [Ho _]]]. destruct r' as [o'|k' kids'].
        + destruct (i_oorig _ I3 _ _ _ Hin) as [H1 [H2 H3]]. split.
          * intros E. assert (o' = o) by congruence. subst o'. rewrite H2. auto.
          * intros E. rewrite H2 in E. injection E as ->. symmetry. exact H1.
        + destruct (i_otmp _ I3 _ _ _ _ Hin) as [H1 [s [H2 H3]]]. split.
          * intros E. exfalso. apply H1. rewrite <- E. exact Ho.
          * intros E. subst. discriminate.
      - destruct Hr as [Hna [-> [Hlv Hnx]]].
        destruct (e_new _ _ _ E3 _ _ _ Hin) as [Hin0|[Hfr [Hser _]]].
        + rewrite Ho2 in Hin0. split.
          * intros E. exfalso. apply Hna. rewrite E. apply (i_live _ I _ _ _ Hin0).
          * intros E. exfalso. subst v'. destruct r' as [o'|k' kids'].
            -- destruct (i_oorig _ I _ _ _ Hin0) as [_ [C _]]. discriminate.
            -- destruct (i_otmp _ I _ _ _ _ Hin0) as [_ [s [C1 C2]]]. injection C1 as <-. lia.
        + split.
          * intros E. exfalso. destruct Hfr as [C|C].
            -- apply Hna. apply (i_orig _ I). rewrite E. exact C.
            -- apply C. rewrite Hlv. left. exact E.
          * intros E. exfalso. specialize (Hser _ (eq_sym E)). lia. }
    assert (Hnew_orig : forall o, r = RObj o -> a = o /\ v = VOrig o /\ o < nh).
    { intros o ->. tauto. }
    assert (Hnew_tmp : forall k0 kids0, r = RTmp k0 kids0 ->
                       ~ a < nh /\ v = VTmp (d_next st) /\ d_next st < d_next st3 /\ ~ In a (d_live st)).
    { intros k0 kids0 ->. destruct Hr as [Hna [-> [Hlv Hnx]]]. splits; auto.
      - intro C. apply Hna, (i_orig _ I), C.
      - pose proof (e_next _ _ _ E3). lia. }
    constructor.
    - (* invariant of the final state *)
      constructor; simpl; rewrite ?W1, ?W2, ?W3, ?W4.
      + apply (i_orig _ I3).
      + apply (i_memo _ I3).
      + apply (i_memo_inj _ I3).
      + intros v' r' n' [Hin|Hin]; [injection Hin as <- <- <-|apply (i_live _ I3 _ _ _ Hin)].
        simpl. apply (e_live _ _ _ E3), Ha2.
      + intros v' o n' [Hin|Hin]; [injection Hin as <- -> <-|apply (i_oorig _ I3 _ _ _ Hin)].
        simpl. apply Hnew_orig. reflexivity.
      + intros v' k' kids' n' [Hin|Hin]; [injection Hin as <- -> <-|apply (i_otmp _ I3 _ _ _ _ Hin)].
        simpl. destruct (Hnew_tmp _ _ eq_refl) as [H1 [H2 [H3 _]]]. split; [exact H1|].
        exists (d_next st). split; assumption.
      + intros v1 r1 n1 v2 r2 n2 [H1|H1] [H2|H2].
        * injection H1 as <- <- <-. injection H2 as <- <- <-. tauto.
        * injection H1 as <- <- <-. simpl. apply Hold, H2.
        * injection H2 as <- <- <-. simpl. destruct (Hold _ _ _ H1) as [A B]. split.
          -- intros E. destruct (A (eq_sym E)) as [-> ->]. tauto.
          -- intros E. symmetry. apply B. symmetry. exact E.
        * apply (i_inj _ I3); assumption.
      + intros v' r' n' [Hin|Hin]; [injection Hin as <- <- <-|apply (i_pinned _ I3 _ _ _ Hin)].
        simpl. apply (e_memo _ _ _ E3), Hm2.
      + intros e [<-|Hin].
        * exists kids. split; [exact Hn|]. simpl.
          eapply Forall2_weaken; [|exact F3]. intros kid s0 [v' Hv]. exists v'. right. exact Hv.
        * eapply occs_ok_mono; [|apply (i_struct _ I3 _ Hin)]. apply incl_tl, incl_refl.
      + intros x. rewrite W5. rewrite (i_files _ I3). split.
        * intros [[v' [r' [n' [H1 [H2 H3]]]]]|[-> Hk]].
          -- exists v', r', n'. splits; auto.
          -- exists v, r, n. splits; auto.
        * intros [v' [r' [n' [[H1|H1] [H2 H3]]]]].
          -- injection H1 as <- <- <-. right. simpl in *. auto.
          -- left. exists v', r', n'. splits; auto.
      + apply W6, (i_files_nodup _ I3).
    - (* frame *)
      constructor; simpl; rewrite ?W1, ?W2, ?W3, ?W4.
      + pose proof (e_next _ _ _ E3). lia.
      + eapply incl_tran; [exact Hl2 | apply (e_live _ _ _ E3)].
      + intros e He0. right. apply (e_occs _ _ _ E3). rewrite Ho2. exact He0.
      + intros v' r' n' [Hin|Hin].
        * injection Hin as <- <- <-. right. splits.
          -- destruct r as [o|k0 kids0].
             ++ left. simpl. destruct (Hnew_orig _ eq_refl) as [-> [_ C]]. exact C.
             ++ right. simpl. destruct (Hnew_tmp _ _ eq_refl) as [_ [_ [_ C]]]. exact C.
          -- intros s E. destruct r as [o|k0 kids0].
             ++ destruct (Hnew_orig _ eq_refl) as [_ [C _]]. congruence.
             ++ destruct (Hnew_tmp _ _ eq_refl) as [_ [C _]]. rewrite C in E. injection E as <-. lia.
          -- exists r, []. split; [left; reflexivity | reflexivity].
        * destruct (e_new _ _ _ E3 _ _ _ Hin) as [Hin0|[Hfr [Hser [r0 [p [Hr0 Hp]]]]]].
          -- left. rewrite <- Ho2. exact Hin0.
          -- right. splits.
             ++ destruct Hfr as [C|C]; [left; exact C | right; intro C'; apply C, Hl2, C'].
             ++ intros s E. specialize (Hser s E). lia.
             ++ apply In_nth_error in Hr0 as [i Hi]. exists r, (i :: p). split; [left; reflexivity|].
                simpl. rewrite Hn, Hi. exact Hp.
      + intros b w Hb. apply (e_memo _ _ _ E3), Hmm2, Hb.
    - constructor; [|constructor]. exists v. simpl. left. reflexivity.
  Qed.

  Lemma Inv_init : Inv (init h).
  Proof.
    constructor; simpl; try (intros; tauto); try (intros; contradiction).
    - intros o Ho. apply in_seq. fold nh. lia.
    - intros a. split; [tauto|]. intros [v [r [n [[] _]]]].
    - constructor.
  Qed.

  Lemma Forall2_In_r {A B} (R : A -> B -> Prop) l1 l2 y :
    Forall2 R l1 l2 -> In y l2 -> exists x, In x l1 /\ R x y.
  Proof.
    induction 1 as [|a b l1 l2 Hab F IH]; simpl; [tauto|].
    intros [<-|H]; [exists a; auto|]. destruct (IH H) as [x [Hx Rx]]. exists x. auto.
  Qed.

  (* every node of a logged schema is itself logged *)
  Lemma occ_logged st : Inv st ->
    forall s v r, In (v, r, s) (d_occs st) -> forall n, In n (occ s) -> exists v' r', In (v', r', n) (d_occs st).
  Proof.
    intros I s. induction s as [a k kids IH] using schema_ind'. intros v r Hin n Hn.
    simpl in Hn. destruct Hn as [<-|Hn]; [eauto|].
    apply in_flat_map in Hn as [x [Hx Hn]].
    destruct (i_struct _ I _ Hin) as [kids0 [_ F]]. simpl in F.
    destruct (Forall2_In_r _ _ _ _ F Hx) as [kid [_ [v' Hv']]].
    rewrite Forall_forall in IH. exact (IH x Hx v' kid Hv' n Hn).
  Qed.

  (* every ref reachable from a logged ref is logged *)
  Lemma reach_logged st : Inv st ->
    forall p v r n r', In (v, r, n) (d_occs st) -> resolve h r p = Some r' ->
    exists v' n', In (v', r', n') (d_occs st).
  Proof.
    intros I. induction p as [|i p IH]; intros v r n r' Hin Hp; simpl in Hp.
    - injection Hp as <-. eauto.
    - destruct (node_of h r) as [[k kids]|] eqn:Hn; [|discriminate].
      destruct (nth_error kids i) as [r1|] eqn:Hi; [|discriminate].
      destruct (i_struct _ I _ Hin) as [kids0 [Hn0 F]]. rewrite Hn in Hn0. injection Hn0 as _ <-.
      destruct (Forall2_nth _ _ _ _ _ F Hi) as [s1 [_ [v1 Hv1]]].
      exact (IH _ _ _ _ Hv1 Hp).
  Qed.

  Section Loaded.
    Variable st : dstate.
    Variable sc : schema.
    Hypothesis I : Inv st.
    Hypothesis Hsc : exists v r, In (v, r, sc) (d_occs st).

    (* the loaded object with the id of a logged call has the kind and the children of that call's object *)
    Lemma entry_sound v r n k ids :
      In (v, r, n) (d_occs st) -> lookup (sid n) (loads sc) = Some (k, ids) ->
      exists ks kids, ids = map sid ks /\ node_of h r = Some (k, kids)
                      /\ Forall2 (fun kid s => exists v', In (v', kid, s) (d_occs st)) kids ks.
    Proof.
      intros Hin L. destruct (loads_from _ _ _ _ L) as [ks [Ho ->]].
      destruct Hsc as [v0 [r0 H0]].
      destruct (occ_logged st I _ _ _ H0 _ Ho) as [v2 [r2 H2]].
      destruct (i_inj _ I _ _ _ _ _ _ Hin H2) as [A _]. destruct (A eq_refl) as [-> ->].
      destruct (i_struct _ I _ H2) as [kids [Hn F]]. exists ks, kids. auto.
    Qed.

    Lemma path_follow : forall p v r n r',
      In (v, r, n) (d_occs st) -> (exists w, lookup (sid n) (loads sc) = Some w) ->
      resolve h r p = Some r' ->
      exists v' n', lresolve (loads sc) (sid n) p = Some (sid n') /\ In (v', r', n') (d_occs st)
                    /\ exists w, lookup (sid n') (loads sc) = Some w.
    Proof.
      induction p as [|i p IH]; intros v r n r' Hin [w Hw] Hp; simpl in Hp.
      - injection Hp as <-. exists v, n. simpl. eauto.
      - destruct (node_of h r) as [[k kids]|] eqn:Hn; [|discriminate].
        destruct (nth_error kids i) as [r1|] eqn:Hi; [|discriminate].
        destruct w as [k' ids].
        destruct (entry_sound _ _ _ _ _ Hin Hw) as [ks [kids0 [-> [Hn0 F]]]].
        rewrite Hn in Hn0. injection Hn0 as -> <-.
        destruct (Forall2_nth _ _ _ _ _ F Hi) as [s1 [Hs1 [v1 Hv1]]].
        assert (Hid : nth_error (map sid ks) i = Some (sid s1)) by (apply map_nth_error, Hs1).
        assert (Hhas : exists w, lookup (sid s1) (loads sc) = Some w).
        { apply loads_has. right. exists (sid n), k', (map sid ks). split; [exact Hw|].
          eapply nth_error_In, Hid. }
        destruct (IH _ _ _ _ Hv1 Hhas Hp) as [v' [n' [H1 [H2 H3]]]].
        exists v', n'. simpl. rewrite Hw, Hid. auto.
    Qed.
  End Loaded.

  (* ---------------------------------------------------------------- the theorems *)
  Section Run.
    Variables (fuel : nat) (root : oid) (sc : schema) (st : dstate).
    Hypothesis Hrun : D fuel (RObj root) (init h) = Some (sc, st).

    Lemma run_post : Inv st /\ Ext [RObj root] (init h) st /\ exists v, In (v, RObj root, sc) (d_occs st).
    Proof.
      destruct (dump_post fuel _ _ _ _ Inv_init Hrun) as [I E F].
      splits; auto. inversion F; subst. assumption.
    Qed.

    Theorem ids_injective :
      injective_ids (visited st)
      /\ (forall a v a' v', In (a, v) (d_memo st) -> In (a', v') (d_memo st) -> (a = a' <-> v = v'))
      /\ memo_pins st.
    Proof.
      destruct run_post as [I _]. splits.
      - intros v a v' a' H H'. unfold visited in *.
        apply in_map_iff in H as [[[v0 r0] n0] [E0 H0]]. apply in_map_iff in H' as [[[v1 r1] n1] [E1 H1]].
        simpl in *. injection E0 as <- <-. injection E1 as <- <-.
        destruct (i_inj _ I _ _ _ _ _ _ H0 H1) as [A B]. split; [intro E; apply A, E | exact B].
      - apply (i_memo_inj _ I).
      - intros v a H. unfold visited in H. apply in_map_iff in H as [[[v0 r0] n0] [E0 H0]].
        simpl in E0. injection E0 as <- <-. split; [apply (i_pinned _ I _ _ _ H0) | apply (i_live _ I _ _ _ H0)].
    Qed.

    Lemma root_loaded : sid sc = root /\ exists w, lookup root (loads sc) = Some w.
    Proof.
      destruct run_post as [I [_ [v Hv]]]. destruct (i_oorig _ I _ _ _ Hv) as [E _].
      split; [exact E|]. rewrite <- E. apply loads_has. left. reflexivity.
    Qed.

    (* a path of the caller's graph that ends in one of the caller's objects ends, in the loaded
       graph, in the object whose id is that object's address *)
    Theorem path_to_object p o :
      resolve h (RObj root) p = Some (RObj o) -> lresolve (loads sc) root p = Some o.
    Proof.
      intros Hp. destruct run_post as [I [_ [v Hv]]]. destruct root_loaded as [E Hw].
      assert (Hsc : exists v r, In (v, r, sc) (d_occs st)) by eauto.
      rewrite <- E in Hw.
      destruct (path_follow st sc I Hsc p _ _ _ _ Hv Hw Hp) as [v' [n' [H1 [H2 _]]]].
      rewrite E in H1. rewrite H1. f_equal. apply (i_oorig _ I _ _ _ H2).
    Qed.

    Theorem sharing p q o1 o2 :
      resolve h (RObj root) p = Some (RObj o1) -> resolve h (RObj root) q = Some (RObj o2) ->
      exists i1 i2, lresolve (loads sc) root p = Some i1 /\ lresolve (loads sc) root q = Some i2
                    /\ (o1 = o2 <-> i1 = i2).
    Proof.
      intros Hp Hq. exists o1, o2. splits; auto using path_to_object. tauto.
    Qed.

    (* the loaded object has the payload kind and the number of children of the original *)
    Theorem kind_preserved p o :
      resolve h (RObj root) p = Some (RObj o) ->
      exists ob ids, nth_error h o = Some ob /\ lookup o (loads sc) = Some (o_kind ob, ids)
                     /\ length ids = length (o_kids ob).
    Proof.
      intros Hp. destruct run_post as [I [_ [v Hv]]]. destruct root_loaded as [E Hw].
      assert (Hsc : exists v r, In (v, r, sc) (d_occs st)) by eauto.
      rewrite <- E in Hw.
      destruct (path_follow st sc I Hsc p _ _ _ _ Hv Hw Hp) as [v' [n' [_ [H2 [[k ids] H3]]]]].
      destruct (entry_sound st sc I Hsc _ _ _ _ _ H2 H3) as [ks [kids [-> [Hn F]]]].
      simpl in Hn. destruct (nth_error h o) as [ob|] eqn:Eo; [|discriminate]. injection Hn as <- <-.
      exists ob, (map sid ks). splits; auto.
      - destruct (i_oorig _ I _ _ _ H2) as [<- _]. exact H3.
      - rewrite map_length. symmetry. apply (Forall2_length' _ _ _ F).
    Qed.

    (* members named by id <-> array-like objects that went through get_state *)
    Theorem array_once_general :
      NoDup (d_files st) /\ forall a, In a (d_files st) <-> In a (visited_files st).
    Proof.
      destruct run_post as [I _]. split; [apply (i_files_nodup _ I)|].
      intros a. rewrite (i_files _ I). unfold visited_files. rewrite in_map_iff. split.
      - intros [v [r [n [H1 [H2 H3]]]]]. exists (v, r, n). split; [exact H2|].
        apply filter_In. auto.
      - intros [[[v r] n] [H1 H2]]. apply filter_In in H2 as [H2 H3]. exists v, r, n. auto.
    Qed.

    Lemma resolve_ok : heap_ok h = true -> forall p r r', ref_ok r = true -> resolve h r p = Some r' -> ref_ok r' = true.
    Proof.
      intros Hh. induction p as [|i p IH]; intros r r' Hr Hp; simpl in Hp.
      - injection Hp as <-. exact Hr.
      - destruct (node_of h r) as [[k kids]|] eqn:Hn; [|discriminate].
        destruct (nth_error kids i) as [r1|] eqn:Hi; [|discriminate].
        apply (IH r1 r'); [|exact Hp]. apply nth_error_In in Hi.
        destruct r as [o|k0 kids0]; simpl in Hn.
        + destruct (nth_error h o) as [ob|] eqn:Eo; [|discriminate]. injection Hn as _ <-.
          unfold heap_ok in Hh. rewrite forallb_forall in Hh. apply nth_error_In in Eo.
          specialize (Hh _ Eo). rewrite forallb_forall in Hh. apply Hh, Hi.
        + injection Hn as _ <-. simpl in Hr. apply andb_true_iff in Hr as [_ Hr].
          rewrite forallb_forall in Hr. apply Hr, Hi.
    Qed.

    Theorem array_once_reachable :
      heap_ok h = true ->
      forall a, In a (d_files st) <-> reachable h root a /\ file_obj h a = true.
    Proof.
      intros Hh a. destruct run_post as [I [E [v0 Hv0]]]. rewrite (i_files _ I). split.
      - intros [v [r [n [H1 [H2 H3]]]]].
        destruct (e_new _ _ _ E _ _ _ H1) as [[]|[_ [_ [r0 [p [[<-|[]] Hp]]]]]].
        destruct (i_struct _ I _ H1) as [kids [Hn _]].
        destruct r as [o|k kids0].
        + destruct (i_oorig _ I _ _ _ H1) as [E1 _]. rewrite H2 in E1. subst o.
          split; [exists p; exact Hp|]. unfold file_obj. simpl in Hn.
          destruct (nth_error h a); [|discriminate]. injection Hn as -> _. exact H3.
        + exfalso. pose proof (resolve_ok Hh p (RObj root) _ eq_refl Hp) as C. simpl in C, Hn.
          injection Hn as -> _. rewrite H3 in C. discriminate.
      - intros [[p Hp] Hf]. destruct (reach_logged st I p _ _ _ _ Hv0 Hp) as [v [n Hn]].
        exists v, (RObj a), n. destruct (i_oorig _ I _ _ _ Hn) as [E1 _]. splits; auto.
        destruct (i_struct _ I _ Hn) as [kids [Hk _]]. unfold file_obj in Hf. simpl in Hk.
        destruct (nth_error h a); [|discriminate]. injection Hk as Ek _. rewrite <- Ek. exact Hf.
    Qed.

    Theorem array_once :
      heap_ok h = true ->
      forall l, NoDup l -> (forall o, In o l <-> reachable h root o /\ file_obj h o = true) ->
      length (d_files st) = length l.
    Proof.
      intros Hh l Hl Hspec. apply Permutation_length, NoDup_Permutation; auto.
      - apply array_once_general.
      - intros a. rewrite (array_once_reachable Hh a). symmetry. apply Hspec.
    Qed.
  End Run.
End Pinned.

(* ------------------------------------------------------------------ allocators that satisfy the constraint *)
Lemma le_fold_max x L : In x L -> x <= fold_right Nat.max 0 L.
Proof.
  induction L as [|y L IH]; simpl; [tauto|]. intros [->|H]; [lia|]. specialize (IH H). lia.
Qed.

Lemma fresh_bump : fresh bump.
Proof. intros n L H. unfold bump in H. apply le_fold_max in H. lia. Qed.

Lemma fresh_reuse a : fresh (reuse a).
Proof.
  intros n L. unfold reuse. destruct (mem_nat a L) eqn:M.
  - apply fresh_bump.
  - apply mem_nat_false, M.
Qed.

(* ------------------------------------------------------------------ cost: the schema is the tree unfolding *)
Lemma ladder_nth n i : i <= n -> nth_error (ladder n) i = Some (rung i).
Proof.
  intros H. unfold ladder. apply map_nth_error.
  rewrite (nth_error_nth' _ 0) by (rewrite seq_length; lia).
  rewrite seq_nth by lia. reflexivity.
Qed.

Lemma ladder_size pin alloc n : forall i, i <= n -> forall fuel st sc st',
  dump pin alloc (ladder n) fuel (RObj i) st = Some (sc, st') -> 2 ^ i <= schema_nodes sc.
Proof.
  induction i as [|j IH]; intros Hi fuel st sc st' H.
  - destruct sc. cbn [schema_nodes Nat.pow]. lia.
  - destruct fuel as [|f]; [discriminate|].
    cbn [dump] in H. unfold dump_body in H. cbn [node_of] in H.
    rewrite (ladder_nth n (S j) Hi) in H. cbn [rung o_kind o_kids enter] in H.
    cbn [dump_list] in H.
    destruct (dump pin alloc (ladder n) f (RObj j) _) as [[n1 s1]|] eqn:E1; [|discriminate].
    destruct (dump pin alloc (ladder n) f (RObj j) s1) as [[n2 s2]|] eqn:E2; [|discriminate].
    injection H as <- _.
    assert (Hj : j <= n) by lia.
    pose proof (IH Hj _ _ _ _ E1). pose proof (IH Hj _ _ _ _ E2).
    cbn [schema_nodes fold_right]. rewrite Nat.pow_succ_r'. lia.
Qed.

Theorem dump_size_exponential pin alloc n fuel sc st :
  dump pin alloc (ladder n) fuel (RObj n) (init (ladder n)) = Some (sc, st) -> 2 ^ n <= schema_nodes sc.
Proof. apply ladder_size. lia. Qed.

(* the ladder is a DAG: the dump does terminate (n + 1 levels of recursion) *)
Lemma dump_S pin alloc h f : dump pin alloc h (S f) = dump_body pin alloc h (dump pin alloc h f).
Proof. reflexivity. Qed.

Lemma ladder_dumps pin alloc n : forall i, i <= n -> forall st,
  exists sc st', dump pin alloc (ladder n) (S i) (RObj i) st = Some (sc, st').
Proof.
  induction i as [|j IH]; intros Hi st.
  - rewrite dump_S. unfold dump_body. cbn [node_of]. rewrite (ladder_nth n 0 Hi).
    cbn [rung o_kind o_kids enter dump_list]. eauto.
  - assert (Hj : j <= n) by lia.
    rewrite dump_S. unfold dump_body at 1. cbn [node_of]. rewrite (ladder_nth n (S j) Hi).
    cbn [rung o_kind o_kids enter dump_list].
    destruct (IH Hj (memoize pin (S j) (VOrig (S j)) st)) as [n1 [s1 E1]].
    rewrite E1. destruct (IH Hj s1) as [n2 [s2 E2]]. rewrite E2. eauto.
Qed.

(* ------------------------------------------------------------------ without pinning *)
(* a list holding two dicts; each dict_get_state creates a key_types list *)
Definition heap3 : heap :=
  [ mkObj PList [RObj 1; RObj 2]; mkObj PDict [RTmp PList []]; mkObj PDict [RTmp PList []] ].

(* a list holding two defaultdicts, each with one value: an empty list of the caller's *)
Definition heap5 : heap :=
  [ mkObj PList [RObj 1; RObj 2];
    mkObj PDefaultDict [RTmp PDict [RTmp PList []; RObj 3]];
    mkObj PDefaultDict [RTmp PDict [RTmp PList []; RObj 4]];
    mkObj PList []; mkObj PList [] ].

Theorem unpinned_refuted :
  exists alloc h sc st,
    fresh alloc /\ length h = 3 /\ dump false alloc h 4 (RObj 0) (init h) = Some (sc, st)
    (* two different temporaries were given one id *)
    /\ In (VTmp 0, 3) (visited st) /\ In (VTmp 1, 3) (visited st) /\ ~ injective_ids (visited st)
    (* two different lists of the dump are one object after the load *)
    /\ resolve h (RObj 0) [0; 0] = Some (RTmp PList []) /\ resolve h (RObj 0) [1; 0] = Some (RTmp PList [])
    /\ lresolve (loads sc) 0 [0; 0] = Some 3 /\ lresolve (loads sc) 0 [1; 0] = Some 3.
Proof.
  exists (reuse 3), heap3.
  destruct (dump false (reuse 3) heap3 4 (RObj 0) (init heap3)) as [[sc st]|] eqn:E;
    [|vm_compute in E; discriminate].
  exists sc, st. vm_compute in E. injection E as <- <-.
  split; [apply fresh_reuse|]. split; [reflexivity|]. split; [reflexivity|].
  assert (A : In (VTmp 0, 3) (visited (mkD 2 [0; 1; 2] [] []
              [(VOrig 0, RObj 0, SNode 0 PList [SNode 1 PDict [SNode 3 PList []]; SNode 2 PDict [SNode 3 PList []]]);
               (VOrig 2, RObj 2, SNode 2 PDict [SNode 3 PList []]); (VTmp 1, RTmp PList [], SNode 3 PList []);
               (VOrig 1, RObj 1, SNode 1 PDict [SNode 3 PList []]); (VTmp 0, RTmp PList [], SNode 3 PList [])])))
    by (vm_compute; tauto).
  assert (B : In (VTmp 1, 3) (visited (mkD 2 [0; 1; 2] [] []
              [(VOrig 0, RObj 0, SNode 0 PList [SNode 1 PDict [SNode 3 PList []]; SNode 2 PDict [SNode 3 PList []]]);
               (VOrig 2, RObj 2, SNode 2 PDict [SNode 3 PList []]); (VTmp 1, RTmp PList [], SNode 3 PList []);
               (VOrig 1, RObj 1, SNode 1 PDict [SNode 3 PList []]); (VTmp 0, RTmp PList [], SNode 3 PList [])])))
    by (vm_compute; tauto).
  split; [exact A|]. split; [exact B|].
  split; [intro C; destruct (C _ _ _ _ A B) as [C1 _]; specialize (C1 eq_refl); discriminate|].
  repeat split; vm_compute; reflexivity.
Qed.

Theorem unpinned_aliases :
  exists alloc h sc st p q o1 o2 i,
    fresh alloc /\ dump false alloc h 6 (RObj 0) (init h) = Some (sc, st)
    /\ resolve h (RObj 0) p = Some (RObj o1) /\ resolve h (RObj 0) q = Some (RObj o2) /\ o1 <> o2
    /\ lresolve (loads sc) 0 p = Some i /\ lresolve (loads sc) 0 q = Some i.
Proof.
  exists (reuse 5), heap5.
  destruct (dump false (reuse 5) heap5 6 (RObj 0) (init heap5)) as [[sc st]|] eqn:E;
    [|vm_compute in E; discriminate].
  exists sc, st, [0; 0; 1], [1; 0; 1], 3, 4, 3. vm_compute in E. injection E as <- <-.
  split; [apply fresh_reuse|]. repeat split; try (vm_compute; reflexivity). discriminate.
Qed.

(* ------------------------------------------------------------------ the hypotheses are satisfiable *)
(* root list [d, d, a]; dict d = {k: a} (key_types temporary); a an ndarray -- shared three times *)
Definition heap_ex : heap :=
  [ mkObj PList [RObj 1; RObj 1; RObj 2]; mkObj PDict [RTmp PList []; RObj 2]; mkObj PArray [] ].

Lemma example_run :
  exists sc st, dump true bump heap_ex 5 (RObj 0) (init heap_ex) = Some (sc, st)
    /\ heap_ok heap_ex = true
    /\ resolve heap_ex (RObj 0) [0; 1] = Some (RObj 2) /\ resolve heap_ex (RObj 0) [2] = Some (RObj 2)
    /\ resolve heap_ex (RObj 0) [1] = Some (RObj 1)
    /\ lresolve (loads sc) 0 [0; 1] = Some 2 /\ lresolve (loads sc) 0 [2] = Some 2
    /\ lresolve (loads sc) 0 [1] = Some 1
    /\ d_files st = [2] /\ schema_nodes sc = 8.
Proof.
  destruct (dump true bump heap_ex 5 (RObj 0) (init heap_ex)) as [[sc st]|] eqn:E;
    [|vm_compute in E; discriminate].
  exists sc, st. vm_compute in E. injection E as <- <-.
  repeat split; vm_compute; reflexivity.
Qed.
