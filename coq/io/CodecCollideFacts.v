(* The repair of D08 in the dump model: a dict (or defaultdict) two of whose kept keys have the same JSON spelling is
   refused by dict_get_state, whatever its values are and wherever it sits -- get_state raises from every dump
   state (ValueError at the second key, or whatever an earlier value / the key types raise first), so dumps raises. *)
From Skv Require Import PyStrFacts CodecGuards CodecInsideFacts.

Lemma NoDup_snoc {A} (a : list A) t : NoDup a -> ~ In t a -> NoDup (a ++ [t]).
Proof.
  induction 1 as [|y a Hy Ha IH]; cbn [app]; intros Ht; [constructor; [intros []|constructor]|].
  constructor.
  - intro Hin. apply in_app_or in Hin. destruct Hin as [Hin|[<-|[]]]; [exact (Hy Hin)|apply Ht; left; reflexivity].
  - apply IH. intro Hin. apply Ht. right. exact Hin.
Qed.

Lemma NoDup_nodup_texts l : NoDup l -> nodup_texts l = true.
Proof.
  induction 1 as [|x l Hx Hl IH]; cbn [nodup_texts]; [reflexivity|]. rewrite IH, andb_true_r.
  destruct (mem x l) eqn:Hm; [|reflexivity]. apply mem_In in Hm. contradiction.
Qed.

Lemma jset_notin t j acc : ~ In t (map fst acc) -> jset t j acc = acc ++ [(t, j)].
Proof.
  induction acc as [|[t' j'] acc IH]; cbn [map fst In jset app]; intros H; [reflexivity|].
  destruct (pstr_eqb t t') eqn:Eq; [apply pstr_eqb_eq in Eq; exfalso; apply H; left; symmetry; exact Eq|].
  rewrite IH; [reflexivity|]. intro Hin. apply H. right. exact Hin.
Qed.

(* the loop: the texts in `acc` are pairwise distinct (they always are: only new texts are added); if they and the
   texts of the kept keys still to come are NOT pairwise distinct, the loop raises *)
Lemma content_of_same_spelling f : forall items acc st,
  NoDup (map fst acc) -> ~ NoDup (map fst acc ++ dict_kept_texts items) ->
  exists e, content_of f items acc st = Raise e.
Proof.
  induction items as [|[k x] items IH]; intros acc st Hacc Hdup.
  - exfalso. apply Hdup. cbn [dict_kept_texts flat_map]. rewrite app_nil_r. exact Hacc.
  - cbn [content_of]. cbn [dict_kept_texts flat_map fst snd] in Hdup. fold (dict_kept_texts items) in Hdup.
    destruct (is_prop x); [cbn [app] in Hdup; apply IH; assumption|].
    destruct (key_collides k acc) eqn:Hkc; [exists EValue; reflexivity|].
    destruct (f x st) as [[j st1]|e]; [|exists e; reflexivity]. cbn [bind].
    unfold key_collides in Hkc. destruct (k_val k) as [sc|].
    + assert (Hfresh : ~ In (key_text sc) (map fst acc)).
      { intro Hin. apply mem_In in Hin. rewrite Hin in Hkc. discriminate. }
      rewrite (jset_notin _ j acc Hfresh). apply IH.
      * rewrite map_app. cbn [map fst]. apply NoDup_snoc; assumption.
      * rewrite map_app. cbn [map fst]. rewrite <- app_assoc. exact Hdup.
    + cbn [app] in Hdup. apply IH; assumption.
Qed.

Lemma same_spelling_not_NoDup items : same_spelling items = true -> ~ NoDup ([] ++ dict_kept_texts items).
Proof.
  unfold same_spelling. intros H Hnd. cbn [app] in Hnd. rewrite (NoDup_nodup_texts _ Hnd) in H. discriminate.
Qed.

Theorem same_spelling_always_raises E id m c items :
  same_spelling items = true -> always_raises E (PDict id m c items).
Proof.
  intros H st. cbn [get_state]. destruct (fresh st) as [ktid st0]. apply bind_cases. intros kts.
  apply bind_raises. apply content_of_same_spelling; [constructor|apply same_spelling_not_NoDup; exact H].
Qed.

Theorem same_spelling_defaultdict_always_raises E id m c fac items :
  same_spelling items = true -> always_raises E (PDefDict id m c fac items).
Proof.
  intros H st. cbn [get_state]. destruct (fresh st) as [did st0]. destruct (fresh st0) as [ktid st0']. apply bind_cases. intros kts.
  apply bind_raises. apply content_of_same_spelling; [constructor|apply same_spelling_not_NoDup; exact H].
Qed.

Definition same_spelling_dict (x : pval) : bool :=
  match x with
  | PDict _ _ _ items | PDefDict _ _ _ _ items => same_spelling items
  | _ => false
  end.

(* at the entry point, for the dict itself (inside := in_here) and for every value that holds it at a position
   the dumper serialises *)
Theorem same_spelling_dumps_raises E base x v :
  same_spelling_dict x = true -> inside x v -> exists e, dumps_model E base v = Raise e.
Proof.
  intros Hx Hin. apply (inside_dumps_raises E base x v Hin).
  destruct x; try discriminate Hx; cbn [same_spelling_dict] in Hx.
  - apply same_spelling_always_raises. exact Hx.
  - apply same_spelling_defaultdict_always_raises. exact Hx.
Qed.

(* when every earlier value dumps and the key types are known, the exception is the ValueError of the collision:
   stated for the smallest shape, two entries *)
Lemma two_keys_value_error E id m c k1 x1 k2 x2 sc1 sc2 st :
  is_prop x1 = false -> is_prop x2 = false -> k_val k1 = Some sc1 -> k_val k2 = Some sc2 -> key_text sc1 = key_text sc2 ->
  (exists kts, key_type_states E [k1; k2] = Ok kts) ->
  (exists j st1, get_state E x1 (snd (fresh st)) = Ok (j, st1)) ->
  get_state E (PDict id m c [(k1, x1); (k2, x2)]) st = Raise EValue.
Proof.
  intros Hp1 Hp2 E1 E2 Ht [kts Hk] [j [st1 Hx]]. cbn [get_state]. destruct (fresh st) as [ktid st0]. cbn [snd] in Hx.
  cbn [map fst]. rewrite Hk. cbn [bind content_of]. rewrite Hp1, Hp2. unfold key_collides at 1. rewrite E1. cbn [map mem].
  rewrite Hx. cbn [bind]. unfold key_collides. rewrite E2. cbn [jset map fst mem]. rewrite Ht.
  replace (pstr_eqb (key_text sc2) (key_text sc2)) with true; [reflexivity|].
  generalize (key_text sc2). intros t. induction t as [|ch t IH]; cbn; [reflexivity|]. rewrite N.eqb_refl. exact IH.
Qed.
