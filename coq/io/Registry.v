(* Loader registry (NODE_TYPE_MAPPING) and the dispatch rule of get_tree. *)
From Skv Require Export Json.
Open Scope Z_scope.

(* (loader name, protocol, class tag) *)
Definition registry := list (pstr * Z * pstr).

Fixpoint find (reg : registry) (l : pstr) (pk : hkey) : option pstr :=
  match reg with
  | [] => None
  | (l', q, c) :: reg' =>
      if pstr_eqb l l' && hkey_eqb pk (HNum (2 * q)) then Some c else find reg' l pk
  end.

Definition pkey (p : Z) : hkey := HNum (2 * p).

(* get_tree: exact (loader, protocol) match, else (loader, PROTOCOL) *)
Definition lookup (reg : registry) (cur : Z) (l : pstr) (pk : hkey) : option pstr :=
  match find reg l pk with
  | Some c => Some c
  | None => find reg l (pkey cur)
  end.

(* The property's wording: the loader registered for the smallest protocol
   not below the archive's (and not above the current one). *)
Fixpoint spec_from (reg : registry) (l : pstr) (p : Z) (n : nat) : option pstr :=
  match n with
  | O => None
  | S n' => match find reg l (pkey p) with
            | Some c => Some c
            | None => spec_from reg l (p + 1) n'
            end
  end.
Definition lookup_spec (reg : registry) (cur : Z) (l : pstr) (p : Z) : option pstr :=
  spec_from reg l p (Z.to_nat (cur - p + 1)).

Definition registered (reg : registry) (l : pstr) (q : Z) : bool :=
  match find reg l (pkey q) with Some _ => true | None => false end.

(* old registrations of each kind are downward closed: {0..q} *)
Definition gap_free (reg : registry) (cur : Z) : bool :=
  forallb (fun e => match e with (l, q, _) =>
     (cur <=? q) || (q =? 0) || ((0 <? q) && registered reg l (q - 1)) end) reg.

(* no registration above the current protocol *)
Definition none_above (reg : registry) (cur : Z) : bool :=
  forallb (fun e => match e with (_, q, _) => q <=? cur end) reg.

Definition all_registered (reg : registry) (cur : Z) (emits : list pstr) : bool :=
  forallb (fun l => registered reg l cur) emits.

(* The dispatch step of get_tree on an arbitrary (loader, protocol) pair of
   JSON values:  (loader, protocol) in NODE_TYPE_MAPPING  hashes both. *)
Definition dispatch (reg : registry) (cur : Z) (loader proto : json) : res (option pstr) :=
  do _ <- jhash loader;
  do pk <- jhash proto;
  match loader with
  | JStr l => Ok (lookup reg cur l pk)
  | _ => Ok None
  end.

Definition show_dispatch (r : res (option pstr)) : pstr :=
  match r with
  | Ok (Some c) => s "ok:" ++ c
  | Ok None => s "noloader"
  | Raise _ => s "error"
  end.
