(* "An unsupported value ANYWHERE inside, at any depth or position": over the real dump model (CodecDump.get_state),
   not over an abstract container walk.  If x can never be serialised (get_state raises on it from every dump state:
   an unsupported type, an object whose __getstate__/__reduce__ raises), then every value that holds x at a
   position the dumper serialises cannot be dumped either -- dumps_model raises, whatever else the value contains and
   whatever was written into the in-memory archive before x was reached. *)
From Coq Require Import List ZArith.
From Skv Require Import PyStr Json PyVal CodecDump.
Import ListNotations.

Definition always_raises (E : denv) (x : pval) : Prop := forall st, exists e, get_state E x st = Raise e.

(* positions the dumper serialises (the cells of an object array are left out of this relation) *)
Inductive inside (x : pval) : pval -> Prop :=
| in_here : inside x x
| in_seq q id m c nt items y : In y items -> inside x y -> inside x (PSeq q id m c nt items)
| in_dict id m c items k y : In (k, y) items -> is_prop y = false -> inside x y -> inside x (PDict id m c items)
| in_defdict_val id m c fac items k y : In (k, y) items -> is_prop y = false -> inside x y -> inside x (PDefDict id m c fac items)
| in_defdict_factory id m c fac items : inside x fac -> inside x (PDefDict id m c fac items)
| in_masked_data id m c d k : inside x d -> inside x (PMasked id m c d k)
| in_masked_mask id m c d k : inside x k -> inside x (PMasked id m c d k)
| in_randstate id m c s : inside x s -> inside x (PRandState id m c s)
| in_randgen_bg id m c bg ss : inside x bg -> inside x (PRandGen id m c bg ss)
| in_randgen_ss id m c bg ss : inside x ss -> inside x (PRandGen id m c bg ss)
| in_partial_func id m c f a k n : inside x f -> inside x (PPartial id m c f a k n)
| in_partial_args id m c f a k n : inside x a -> inside x (PPartial id m c f a k n)
| in_partial_kwds id m c f a k n : inside x k -> inside x (PPartial id m c f a k n)
| in_partial_ns id m c f a k n : inside x n -> inside x (PPartial id m c f a k n)
| in_opfunc id c attrs : inside x attrs -> inside x (POpFunc id c attrs)
| in_method id m f self : inside x self -> inside x (PMethod id m f self)
| in_obj_reduce id m c hk hid arg : inside x arg -> inside x (PObj id m c hk hid OKReduce arg)
| in_obj_state id m c hk hid arg : inside x arg -> inside x (PObj id m c hk hid OKState arg).

Lemma bind_raises {A B} (r : res A) (k : A -> res B) :
  (exists e, r = Raise e) -> exists e, bind r k = Raise e.
Proof. intros [e ->]. exists e. reflexivity. Qed.

Lemma bind_then {A B} (r : res A) (k : A -> res B) :
  (forall a, r = Ok a -> exists e, k a = Raise e) -> (exists e, bind r k = Raise e) \/ False \/ True.
Proof. intros _. right. right. exact I. Qed.

(* either r raises, or it returns and the continuation raises *)
Lemma bind_cases {A B} (r : res A) (k : A -> res B) :
  (forall a, exists e, k a = Raise e) -> exists e, bind r k = Raise e.
Proof. intros H. destruct r as [a|e]; [apply H | exists e; reflexivity]. Qed.

Section Loops.
  Variable E : denv.
  Let f : stf := fun x s0 => get_state E x s0.

  Lemma states_of_raises items y :
    In y items -> (forall st, exists e, f y st = Raise e) -> forall st, exists e, states_of f items st = Raise e.
  Proof.
    induction items as [|z items IH]; intros Hin Hy st; [destruct Hin|].
    cbn [states_of]. destruct Hin as [<-|Hin].
    - apply bind_raises. apply Hy.
    - destruct (f z st) as [[j st1]|e]; [|exists e; reflexivity]. cbn [bind].
      apply bind_raises. apply IH; assumption.
  Qed.

  Lemma content_of_raises items k y :
    In (k, y) items -> is_prop y = false -> (forall st, exists e, f y st = Raise e) ->
    forall acc st, exists e, content_of f items acc st = Raise e.
  Proof.
    induction items as [|[k' z] items IH]; intros Hin Hp Hy acc st; [destruct Hin|].
    cbn [content_of]. destruct Hin as [Heq|Hin].
    - injection Heq as -> ->. rewrite Hp. destruct (key_collides k acc); [exists EValue; reflexivity|]. apply bind_raises. apply Hy.
    - destruct (is_prop z); [apply IH; assumption|].
      destruct (key_collides k' acc); [exists EValue; reflexivity|].
      destruct (f z st) as [[j st1]|e]; [|exists e; reflexivity]. cbn [bind].
      destruct (k_val k'); apply IH; assumption.
  Qed.
End Loops.

Theorem inside_raises E x v : inside x v -> always_raises E x -> always_raises E v.
Proof.
  intros Hin Hx. induction Hin as
    [ | q id m c nt items y Hy _ IH | id m c items k y Hy Hp _ IH | id m c fac items k y Hy Hp _ IH
      | id m c fac items _ IH | id m c d k _ IH | id m c d k _ IH | id m c s _ IH | id m c bg ss _ IH | id m c bg ss _ IH
      | id m c f a k n _ IH | id m c f a k n _ IH | id m c f a k n _ IH | id m c f a k n _ IH
      | id c attrs _ IH | id m f self _ IH | id m c hk hid arg _ IH | id m c hk hid arg _ IH ];
    intros st; cbn [get_state].
  - apply Hx.
  - apply bind_raises. apply (states_of_raises E items y Hy IH).
  - destruct (fresh st) as [ktid st0]. apply bind_cases. intros kts.
    apply bind_raises. apply (content_of_raises E items k y Hy Hp IH).
  - destruct (fresh st) as [did st0]. destruct (fresh st0) as [ktid st0']. apply bind_cases. intros kts.
    apply bind_raises. apply (content_of_raises E items k y Hy Hp IH).
  - destruct (fresh st) as [did st0]. destruct (fresh st0) as [ktid st0']. apply bind_cases. intros kts.
    apply bind_cases. intros [cont st1]. apply bind_raises. apply IH.
  - apply bind_raises. apply IH.
  - apply bind_cases. intros [jd st1]. apply bind_raises. apply IH.
  - apply bind_raises. apply IH.
  - apply bind_raises. apply IH.
  - apply bind_cases. intros [jb st1]. apply bind_raises. apply IH.
  - apply bind_raises. apply IH.
  - apply bind_cases. intros [jf st1]. apply bind_raises. apply IH.
  - apply bind_cases. intros [jf st1]. apply bind_cases. intros [ja st2]. apply bind_raises. apply IH.
  - apply bind_cases. intros [jf st1]. apply bind_cases. intros [ja st2]. apply bind_cases. intros [jk st3].
    apply bind_raises. apply IH.
  - apply bind_raises. apply IH.
  - apply bind_raises. apply IH.
  - apply bind_raises. apply IH.
  - apply bind_raises. apply IH.
Qed.

(* the values that can never be serialised: the dispatch ends in unsupported_get_state, or the object's own
   __getstate__ / __reduce__ raises *)
Lemma unsup_always_raises E id m c : always_raises E (PUnsup id m c).
Proof. intros st. exists EUnsupported. reflexivity. Qed.
Lemma raising_obj_always_raises E id m c hk hid e arg : always_raises E (PObj id m c hk hid (OKRaise e) arg).
Proof. intros st. exists e. reflexivity. Qed.
Lemma property_always_raises E id : always_raises E (PProp id).
Proof. intros st. exists EType. reflexivity. Qed.

(* at the entry point: dumps raises *)
Theorem inside_dumps_raises E base x v :
  inside x v -> always_raises E x -> exists e, dumps_model E base v = Raise e.
Proof.
  intros Hin Hx. unfold dumps_model.
  destruct (inside_raises E x v Hin Hx (init_dst base)) as [e He]. rewrite He. exists e. reflexivity.
Qed.

(* non-vacuity: an unsupported value three levels down, behind values that DO get written first *)
Example inside_example :
  let bad := PUnsup 99 (s "m") (s "C") in
  let v := PSeq QList 1 (s "builtins") (s "list") false
             [PArr 2 false (s "numpy") (s "ndarray") (s "tok");
              PDict 3 (s "builtins") (s "dict")
                [({| k_mod := s "builtins"; k_cls := s "str"; k_val := Some (SStr (s "a")) |}, PSeq QTuple 5 (s "builtins") (s "tuple") false [PScalar 6 (SInt 1); bad])]] in
  inside bad v.
Proof.
  cbn zeta. eapply in_seq; [right; left; reflexivity|].
  eapply in_dict; [left; reflexivity | reflexivity |].
  eapply in_seq; [right; left; reflexivity | apply in_here].
Qed.
