(* "An unsupported value ANYWHERE inside, at any depth or position": over the real dump model (CodecDump.get_state),
   not over an abstract container walk.  If x can never be serialised (get_state raises on it from every dump state:
   an unsupported type, an object whose __getstate__/__reduce__ raises), then every value that holds x at a
   position the dumper serialises cannot be dumped either -- dumps_model raises, whatever else the value contains and
   whatever was written into the in-memory archive before x was reached. *)
From Coq Require Import List ZArith Lia.
From Skv Require Import PyStr Json PyVal CodecDump CodecWfFacts.
Import ListNotations.

Definition always_raises (E : denv) (x : pval) : Prop := forall st, exists e, get_state E x st = Raise e.

(* positions the dumper serialises (the cells of an object array included: every cell of an array is serialised, whatever
   its rank; a value that is not an array -- a shape that does not fit the cells -- is outside the model, EDomain) *)
Inductive inside (x : pval) : pval -> Prop :=
| in_here : inside x x
| in_seq q id m c nt items y : In y items -> inside x y -> inside x (PSeq q id m c nt items)
| in_dict id m c items k y : In (k, y) items -> is_prop y = false -> inside x y -> inside x (PDict id m c items)
| in_defdict_val id m c fac items k y : In (k, y) items -> is_prop y = false -> inside x y -> inside x (PDefDict id m c fac items)
| in_defdict_factory id m c fac items : inside x fac -> inside x (PDefDict id m c fac items)
| in_objarr id m c shape cells y : In y cells -> inside x y -> inside x (PObjArr id m c shape cells)
| in_masked_data id m c d k : inside x d -> inside x (PMasked id m c d k)
| in_masked_mask id m c d k : inside x k -> inside x (PMasked id m c d k)
| in_randstate id m c s : inside x s -> inside x (PRandState id m c s)
| in_randgen_bg id m c bg ss : inside x bg -> inside x (PRandGen id m c bg ss)
| in_randgen_ss id m c bg ss : inside x ss -> inside x (PRandGen id m c bg ss)
| in_partial_func id m c f a k n : inside x f -> inside x (PPartial id m c f a k n)
| in_partial_args id m c f a k n : inside x a -> inside x (PPartial id m c f a k n)
| in_partial_kwds id m c f a k n : inside x k -> inside x (PPartial id m c f a k n)
| in_partial_ns id m c f a k n : inside x n -> inside x (PPartial id m c f a k n)
| in_opfunc id c attrs : inside x attrs -> inside x (POpFunc id c attrs)
| in_method id m f self : inside x self -> inside x (PMethod id m f self)
| in_obj_reduce id m c hk hid arg : inside x arg -> inside x (PObj id m c hk hid OKReduce arg)
| in_obj_state id m c hk hid arg : inside x arg -> inside x (PObj id m c hk hid OKState arg).

Lemma bind_raises {A B} (r : res A) (k : A -> res B) :
  (exists e, r = Raise e) -> exists e, bind r k = Raise e.
Proof. intros [e ->]. exists e. reflexivity. Qed.

Lemma bind_then {A B} (r : res A) (k : A -> res B) :
  (forall a, r = Ok a -> exists e, k a = Raise e) -> (exists e, bind r k = Raise e) \/ False \/ True.
Proof. intros _. right. right. exact I. Qed.

(* either r raises, or it returns and the continuation raises *)
Lemma bind_cases {A B} (r : res A) (k : A -> res B) :
  (forall a, exists e, k a = Raise e) -> exists e, bind r k = Raise e.
Proof. intros H. destruct r as [a|e]; [apply H | exists e; reflexivity]. Qed.

Section Loops.
  Variable E : denv.
  Let f : stf := fun x s0 => get_state E x s0.

  Lemma states_of_raises items y :
    In y items -> (forall st, exists e, f y st = Raise e) -> forall st, exists e, states_of f items st = Raise e.
  Proof.
    induction items as [|z items IH]; intros Hin Hy st; [destruct Hin|].
    cbn [states_of]. destruct Hin as [<-|Hin].
    - apply bind_raises. apply Hy.
    - destruct (f z st) as [[j st1]|e]; [|exists e; reflexivity]. cbn [bind].
      apply bind_raises. apply IH; assumption.
  Qed.

  Lemma content_of_raises items k y :
    In (k, y) items -> is_prop y = false -> (forall st, exists e, f y st = Raise e) ->
    forall acc st, exists e, content_of f items acc st = Raise e.
  Proof.
    induction items as [|[k' z] items IH]; intros Hin Hp Hy acc st; [destruct Hin|].
    cbn [content_of]. destruct Hin as [Heq|Hin].
    - injection Heq as -> ->. rewrite Hp. destruct (key_collides k acc); [exists EValue; reflexivity|]. apply bind_raises. apply Hy.
    - destruct (is_prop z); [apply IH; assumption|].
      destruct (key_collides k' acc); [exists EValue; reflexivity|].
      destruct (f z st) as [[j st1]|e]; [|exists e; reflexivity]. cbn [bind].
      destruct (k_val k'); apply IH; assumption.
  Qed.
End Loops.

(* the content of an object array: a closure that always raises makes the whole nest of tolist() lists raise *)
Definition araises (c : clo) : Prop := forall st, exists e, c st = Raise e.
Lemma run_all_raises cs c : In c cs -> araises c -> forall st, exists e, run_all cs st = Raise e.
Proof.
  induction cs as [|z cs IH]; intros Hin Hc st; [destruct Hin|]. cbn [run_all]. destruct Hin as [<-|Hin].
  - apply bind_raises. apply Hc.
  - destruct (z st) as [[j st1]|e]; [|exists e; reflexivity]. cbn [bind]. apply bind_raises. apply IH; assumption.
Qed.
Lemma tolist_raises : forall dims cs c, length cs = nprod dims -> In c cs -> araises c -> araises (tolist_state dims cs).
Proof.
  induction dims as [|d ds IH]; intros cs c Hl Hin Hc.
  - cbn [nprod] in Hl. destruct cs as [|c0 [|c1 cs]]; try discriminate Hl. destruct Hin as [<-|[]]. exact Hc.
  - cbn [nprod] in Hl. intros st. cbn [tolist_state]. destruct (fresh st) as [lid st0].
    destruct (in_chunks (nprod ds) d cs c Hl Hin) as [ch [Hch Hcc]].
    apply bind_raises. apply (run_all_raises _ (tolist_state ds ch)); [apply in_map; exact Hch|].
    apply (IH ch c); [exact (chunks_len_in _ _ _ _ Hl Hch)|exact Hcc|exact Hc].
Qed.
Lemma content_raises dims cs c : length cs = nprod dims -> In c cs -> araises c ->
  forall st, exists e, run_all (content_clos dims cs) st = Raise e.
Proof.
  intros Hl Hin Hc. destruct dims as [|d ds]; cbn [content_clos].
  - apply (run_all_raises _ (tolist_state [] cs)); [left; reflexivity|]. exact (tolist_raises [] cs c Hl Hin Hc).
  - cbn [nprod] in Hl. destruct (in_chunks (nprod ds) d cs c Hl Hin) as [ch [Hch Hcc]].
    apply (run_all_raises _ (tolist_state ds ch)); [apply in_map; exact Hch|].
    apply (tolist_raises ds ch c); [exact (chunks_len_in _ _ _ _ Hl Hch)|exact Hcc|exact Hc].
Qed.

Theorem inside_raises E x v : inside x v -> always_raises E x -> always_raises E v.
Proof.
  intros Hin Hx. induction Hin as
    [ | q id m c nt items y Hy _ IH | id m c items k y Hy Hp _ IH | id m c fac items k y Hy Hp _ IH
      | id m c fac items _ IH | id m c shape cells y Hy _ IH | id m c d k _ IH | id m c d k _ IH | id m c s _ IH | id m c bg ss _ IH | id m c bg ss _ IH
      | id m c f a k n _ IH | id m c f a k n _ IH | id m c f a k n _ IH | id m c f a k n _ IH
      | id c attrs _ IH | id m f self _ IH | id m c hk hid arg _ IH | id m c hk hid arg _ IH ];
    intros st; cbn [get_state].
  - apply Hx.
  - apply bind_raises. apply (states_of_raises E items y Hy IH).
  - destruct (fresh st) as [ktid st0]. apply bind_cases. intros kts.
    apply bind_raises. apply (content_of_raises E items k y Hy Hp IH).
  - destruct (fresh st) as [did st0]. destruct (fresh st0) as [ktid st0']. apply bind_cases. intros kts.
    apply bind_raises. apply (content_of_raises E items k y Hy Hp IH).
  - destruct (fresh st) as [did st0]. destruct (fresh st0) as [ktid st0']. apply bind_cases. intros kts.
    apply bind_cases. intros [cont st1]. apply bind_raises. apply IH.
  - (* a cell of an object array *)
    destruct (shape_okb shape (length cells)) eqn:Hok; [|exists EDomain; reflexivity].
    destruct (shape_ok_nat _ _ Hok) as [_ [_ Hlen]]. destruct (fresh st) as [lid st0]. apply bind_raises.
    apply (content_raises _ _ (fun s0 => get_state E y s0)); [rewrite map_length; exact Hlen| |exact IH].
    apply (in_map (fun x0 s0 => get_state E x0 s0)). exact Hy.
  - apply bind_raises. apply IH.
  - apply bind_cases. intros [jd st1]. apply bind_raises. apply IH.
  - apply bind_raises. apply IH.
  - apply bind_raises. apply IH.
  - apply bind_cases. intros [jb st1]. apply bind_raises. apply IH.
  - apply bind_raises. apply IH.
  - apply bind_cases. intros [jf st1]. apply bind_raises. apply IH.
  - apply bind_cases. intros [jf st1]. apply bind_cases. intros [ja st2]. apply bind_raises. apply IH.
  - apply bind_cases. intros [jf st1]. apply bind_cases. intros [ja st2]. apply bind_cases. intros [jk st3].
    apply bind_raises. apply IH.
  - apply bind_raises. apply IH.
  - apply bind_raises. apply IH.
  - apply bind_raises. apply IH.
  - apply bind_raises. apply IH.
Qed.

(* the values that can never be serialised: the dispatch ends in unsupported_get_state, or the object's own
   __getstate__ / __reduce__ raises *)
Lemma unsup_always_raises E id m c : always_raises E (PUnsup id m c).
Proof. intros st. exists EUnsupported. reflexivity. Qed.
Lemma raising_obj_always_raises E id m c hk hid e arg : always_raises E (PObj id m c hk hid (OKRaise e) arg).
Proof. intros st. exists e. reflexivity. Qed.
Lemma property_always_raises E id : always_raises E (PProp id).
Proof. intros st. exists EType. reflexivity. Qed.

(* at the entry point: dumps raises *)
Theorem inside_dumps_raises E base x v :
  inside x v -> always_raises E x -> exists e, dumps_model E base v = Raise e.
Proof.
  intros Hin Hx. unfold dumps_model.
  destruct (inside_raises E x v Hin Hx (init_dst base)) as [e He]. rewrite He. exists e. reflexivity.
Qed.

(* non-vacuity for object arrays: an unsupported value as a cell of a (2,1) array inside a rank-0 array *)
Example inside_objarr_example :
  let bad := PUnsup 99 (s "m") (s "C") in
  let v := PObjArr 1 (s "numpy") (s "ndarray") []
             [PObjArr 2 (s "numpy") (s "ndarray") [2; 1]%Z [PScalar 3 (SInt 1); PSeq QList 4 (s "builtins") (s "list") false [bad]]] in
  inside bad v /\ forall E base, exists e, dumps_model E base v = Raise e.
Proof.
  cbn zeta. assert (H : inside (PUnsup 99 (s "m") (s "C"))
    (PObjArr 1 (s "numpy") (s "ndarray") []
       [PObjArr 2 (s "numpy") (s "ndarray") [2; 1]%Z [PScalar 3 (SInt 1); PSeq QList 4 (s "builtins") (s "list") false [PUnsup 99 (s "m") (s "C")]]])).
  { eapply in_objarr; [left; reflexivity|]. eapply in_objarr; [right; left; reflexivity|].
    eapply in_seq; [left; reflexivity|apply in_here]. }
  split; [exact H|]. intros E base. unfold dumps_model.
  destruct (inside_raises E _ _ H (fun st => ex_intro _ EUnsupported eq_refl) (init_dst base)) as [e He]. rewrite He. exists e. reflexivity.
Qed.

(* non-vacuity: an unsupported value three levels down, behind values that DO get written first *)
Example inside_example :
  let bad := PUnsup 99 (s "m") (s "C") in
  let v := PSeq QList 1 (s "builtins") (s "list") false
             [PArr 2 false (s "numpy") (s "ndarray") (s "tok");
              PDict 3 (s "builtins") (s "dict")
                [({| k_mod := s "builtins"; k_cls := s "str"; k_val := Some (SStr (s "a")) |}, PSeq QTuple 5 (s "builtins") (s "tuple") false [PScalar 6 (SInt 1); bad])]] in
  inside bad v.
Proof.
  cbn zeta. eapply in_seq; [right; left; reflexivity|].
  eapply in_dict; [left; reflexivity | reflexivity |].
  eapply in_seq; [right; left; reflexivity | apply in_here].
Qed.
