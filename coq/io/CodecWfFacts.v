(* C12 facts: every state get_state emits is well-formed; members = file references; names flat. *)
From Skv Require Import CodecWf PyValInd.
From Coq Require Import Lia.

Ltac inv_bind H :=
  repeat match type of H with
  | bind ?r _ = Ok _ =>
      let E := fresh "E" in
      lazymatch type of r with
      | res (_ * _) => destruct r as [[? ?]|] eqn:E; [cbn [bind] in H | discriminate H]
      | _ => destruct r as [?|] eqn:E; [cbn [bind] in H | discriminate H]
      end
  | (let (_, _) := ?p in _) = Ok _ => destruct p eqn:?
  | (if ?b then _ else _) = Ok _ => destruct b eqn:?
  | Ok _ = Ok _ => injection H as <- <-
  | Raise _ = Ok _ => discriminate H
  end.

(* chk on the loops *)
Fixpoint chk_all (l : list json) : bool := match l with [] => true | x :: l' => chk MState x && chk_all l' end.
Fixpoint chk_vals (l : list (pstr * json)) : bool := match l with [] => true | (_, x) :: l' => chk MState x && chk_vals l' end.

Lemma chk_states_arr l : chk MStates (JArr l) = chk_all l.
Proof. cbn [chk]. induction l as [|x l IH]; cbn [chk_all]; [reflexivity|]. rewrite <- IH. reflexivity. Qed.
Lemma chk_nd_arr l : chk MNd (JArr l) = chk_all l.
Proof. cbn [chk]. induction l as [|x l IH]; cbn [chk_all]; [reflexivity|]. rewrite <- IH. reflexivity. Qed.
Lemma chk_dict_obj l : chk MDictStates (JObj l) = chk_vals l.
Proof. cbn [chk]. induction l as [|[k x] l IH]; cbn [chk_vals]; [reflexivity|]. rewrite <- IH. reflexivity. Qed.

Lemma chk_vals_jset k j acc : chk MState j = true -> chk_vals acc = true -> chk_vals (jset k j acc) = true.
Proof.
  intros Hj. induction acc as [|[k' x] acc IH]; cbn [jset chk_vals]; intros H.
  - rewrite Hj. reflexivity.
  - apply andb_prop in H. destruct H as [Hx Hacc]. destruct (pstr_eqb k k'); cbn [chk_vals].
    + rewrite Hj, Hacc. reflexivity.
    + rewrite Hx, (IH Hacc). reflexivity.
Qed.

Section Chk.
  Variable E : denv.
  Definition P (v : pval) : Prop := forall st j st', get_state E v st = Ok (j, st') -> chk MState j = true.

  Lemma states_chk l : Forall P l -> forall st js st', states_of (fun x s0 => get_state E x s0) l st = Ok (js, st') -> chk_all js = true.
  Proof.
    induction 1 as [|x l Hx Hl IH]; intros st js st' H; cbn [states_of] in H.
    - injection H as <- <-. reflexivity.
    - inv_bind H. cbn [chk_all]. rewrite (Hx _ _ _ E0), (IH _ _ _ E1). reflexivity.
  Qed.

  Lemma content_chk l : Forall (fun kv => P (snd kv)) l -> forall acc st cont st',
    chk_vals acc = true -> content_of (fun x s0 => get_state E x s0) l acc st = Ok (cont, st') -> chk_vals cont = true.
  Proof.
    induction 1 as [|[k x] l Hx Hl IH]; intros acc st cont st' Hacc H; cbn [content_of] in H.
    - injection H as <- <-. exact Hacc.
    - destruct (is_prop x); [eapply IH; eassumption|].
      inv_bind H. cbn [snd] in Hx. destruct (k_val k).
      + eapply IH; [|eassumption]. apply chk_vals_jset; [eapply Hx; eassumption|assumption].
      + eapply IH; eassumption.
  Qed.

  Lemma key_types_chk ks : forall js, key_type_states E ks = Ok js -> chk_all js = true.
  Proof.
    induction ks as [|k ks IH]; intros js H; cbn [key_type_states] in H.
    - injection H as <-. reflexivity.
    - destruct (dget _ _); [|discriminate]. destruct (key_type_states E ks); [|discriminate].
      cbn [bind] in H. injection H as <-. cbn [chk_all]. rewrite (IH _ eq_refl). rewrite andb_true_r. reflexivity.
  Qed.
End Chk.

Fixpoint chk_fields (l : pstr) (f : list (pstr * json)) : bool :=
  match f with [] => true | (k, x) :: f' => chk (field_mode l k) x && chk_fields l f' end.

Lemma chk_state_obj kv : chk MState (JObj kv) = has4 kv && chk_fields (loader_of kv) kv.
Proof.
  cbn [chk]. f_equal. generalize (loader_of kv) as l. intro l.
  induction kv as [|[k x] kv IH]; cbn [chk_fields]; [reflexivity|]. rewrite <- IH. reflexivity.
Qed.

Lemma chk_fields_app l a b : chk_fields l (a ++ b) = chk_fields l a && chk_fields l b.
Proof. induction a as [|[k x] a IH]; cbn [app chk_fields]; [reflexivity|]. rewrite IH, andb_assoc. reflexivity. Qed.

Lemma has_key_app_r k a v : has_key k (a ++ [(k, v)]) = true.
Proof.
  unfold has_key. induction a as [|[k' x] a IH]; cbn [app dget].
  - replace (pstr_eqb k k) with true; [reflexivity|]. clear. induction k; cbn; [reflexivity|]. rewrite N.eqb_refl. exact IHk.
  - destruct (pstr_eqb k k'); [reflexivity|exact IH].
Qed.

Lemma chk_node c m l fields id :
  mem l model_loaders = true -> chk_fields l fields = true ->
  chk MState (node_state c m l fields id) = true.
Proof.
  intros Hl Hf. unfold node_state. rewrite chk_state_obj.
  assert (HL : loader_of ((K "__class__", JStr c) :: (K "__module__", JStr m) :: (K "__loader__", JStr l)
                          :: fields ++ [(K "__id__", JInt id)]) = l) by reflexivity.
  rewrite HL. apply andb_true_intro. split.
  - unfold has4. rewrite HL, Hl.
    change (has_key (s "__class__") ((K "__class__", JStr c) :: (K "__module__", JStr m) :: (K "__loader__", JStr l) :: fields ++ [(K "__id__", JInt id)])) with true.
    change (has_key (s "__module__") ((K "__class__", JStr c) :: (K "__module__", JStr m) :: (K "__loader__", JStr l) :: fields ++ [(K "__id__", JInt id)])) with true.
    cbn [andb]. rewrite andb_true_r.
    change (has_key (s "__id__") ((K "__class__", JStr c) :: (K "__module__", JStr m) :: (K "__loader__", JStr l) :: fields ++ [(K "__id__", JInt id)]))
      with (has_key (s "__id__") (fields ++ [(K "__id__", JInt id)])).
    apply has_key_app_r.
  - change (chk_fields l ((K "__class__", JStr c) :: (K "__module__", JStr m) :: (K "__loader__", JStr l) :: fields ++ [(K "__id__", JInt id)]))
      with (chk_fields l (fields ++ [(K "__id__", JInt id)])).
    rewrite chk_fields_app, Hf. reflexivity.
Qed.

Lemma chk_raw_true j : chk MRaw j = true.
Proof. destruct j; reflexivity. Qed.

Ltac fm := repeat match goal with
  | |- context [field_mode ?a ?b] => let r := eval vm_compute in (field_mode a b) in change (field_mode a b) with r
  end.
Ltac node := apply chk_node; [reflexivity | cbn [chk_fields]; fm; rewrite ?chk_raw_true].


Lemma sbound_json_st b st j st' : sbound_json b st = Ok (j, st') -> True.
Proof. trivial. Qed.

Lemma tolist_chk : forall dims cs st j cs' st',
  Forall (fun c : clo => forall st j st', c st = Ok (j, st') -> chk MState j = true) cs ->
  tolist_state dims cs st = Ok (j, cs', st') ->
  chk MState j = true /\ Forall (fun c : clo => forall st j st', c st = Ok (j, st') -> chk MState j = true) cs'.
Proof.
  induction dims as [|d dims IH]; intros cs st j cs' st' Hcs H; cbn [tolist_state] in H.
  - destruct cs as [|c cs]; [discriminate|]. inv_bind H. inversion Hcs; subst. split; [eauto|assumption].
  - destruct (fresh st) as [lid st0] eqn:Hf.
    match type of H with context [(fix rep (n : nat) (cs : list clo) (st : dst) {struct n} := _)] =>
      set (rep := (fix rep (n : nat) (cs : list clo) (st : dst) {struct n} : res (list json * list clo * dst) := _)) in H end.
    assert (Hrep : forall n cs st js cs' st',
              Forall (fun c : clo => forall st j st', c st = Ok (j, st') -> chk MState j = true) cs ->
              rep n cs st = Ok (js, cs', st') ->
              chk_all js = true /\ Forall (fun c : clo => forall st j st', c st = Ok (j, st') -> chk MState j = true) cs').
    { induction n as [|n IHn]; intros cs1 st1 js cs1' st1' Hc Hr; cbn in Hr.
      - injection Hr as <- <- <-. split; [reflexivity|assumption].
      - destruct (tolist_state dims cs1 st1) as [[[j1 cs2] st2]|] eqn:E1; [|discriminate]. cbn [bind] in Hr.
        destruct (rep n cs2 st2) as [[[js2 cs3] st3]|] eqn:E2; [|discriminate]. cbn [bind] in Hr.
        injection Hr as <- <- <-.
        destruct (IH _ _ _ _ _ Hc E1) as [Hj Hc2]. destruct (IHn _ _ _ _ _ Hc2 E2) as [Hjs Hc3].
        split; [|assumption]. cbn [chk_all]. rewrite Hj, Hjs. reflexivity. }
    destruct (rep d cs st0) as [[[items cs1] st1]|] eqn:E1; [|discriminate]. cbn [bind] in H.
    injection H as <- <- <-. destruct (Hrep _ _ _ _ _ _ Hcs E1) as [Hi Hc].
    split; [|assumption]. unfold list_state. node. rewrite chk_states_arr, Hi. reflexivity.
Qed.

Lemma closures_chk E l : Forall (P E) l ->
  Forall (fun c : clo => forall st j st', c st = Ok (j, st') -> chk MState j = true) (map (fun x s0 => get_state E x s0) l).
Proof. induction 1; cbn [map]; constructor; auto. Qed.

Lemma shape_items_chk dims : forall st js st', shape_items dims st = (js, st') -> chk_all js = true.
Proof.
  induction dims as [|d dims IH]; intros st js st' H; cbn [shape_items] in H.
  - injection H as <- <-. reflexivity.
  - destruct (int_obj d st) as [i st1]. destruct (shape_items dims st1) as [rest st2] eqn:E1.
    injection H as <- <-. cbn [chk_all]. rewrite (IH _ _ _ E1), andb_true_r. unfold json_state. node. reflexivity.
Qed.

Lemma shape_state_chk dims st j st' : shape_state dims st = (j, st') -> chk MState j = true.
Proof.
  unfold shape_state. intros H.
  destruct (match dims with [] => (empty_tuple_id, st) | _ :: _ => fresh st end) as [tid st0].
  destruct (shape_items dims st0) as [items st1] eqn:E1. injection H as <- <-.
  node. rewrite chk_states_arr, (shape_items_chk _ _ _ _ E1). reflexivity.
Qed.

Lemma tolist_list_state : forall d dims cs st j cs' st',
  tolist_state (d :: dims) cs st = Ok (j, cs', st') -> exists items lid, j = list_state items lid.
Proof.
  intros d dims cs st j cs' st' H. cbn [tolist_state] in H. destruct (fresh st) as [lid st0].
  match type of H with bind ?r _ = _ => destruct r as [[[items cs1] st1]|]; [|discriminate] end.
  cbn [bind] in H. injection H as <- <- <-. eauto.
Qed.

Lemma no_rank0_all l :
  (fix all (l : list pval) : bool := match l with [] => true | x :: l' => no_rank0 x && all l' end) l = forallb no_rank0 l.
Proof. induction l as [|x l IH]; [reflexivity|]. cbn [forallb]. rewrite <- IH. reflexivity. Qed.
Lemma no_rank0_vals l :
  (fix vals (l : list (dkey * pval)) : bool := match l with [] => true | (_, x) :: l' => no_rank0 x && vals l' end) l
  = forallb (fun kv => no_rank0 (snd kv)) l.
Proof. induction l as [|[k x] l IH]; [reflexivity|]. cbn [forallb snd]. rewrite <- IH. reflexivity. Qed.

Lemma Forall_guard {A} (G : A -> bool) (Q : A -> Prop) l :
  Forall (fun x => G x = true -> Q x) l -> forallb G l = true -> Forall Q l.
Proof.
  induction 1 as [|x l Hx Hl IH]; intros H; [constructor|]. cbn [forallb] in H. apply andb_prop in H. destruct H.
  constructor; auto.
Qed.

Lemma list_state_inv items lid : chk MState (list_state items lid) = true -> chk_all items = true.
Proof.
  intros H. unfold list_state, node_state in H. rewrite chk_state_obj in H. apply andb_prop in H. destruct H as [_ H].
  match type of H with chk_fields ?l ?f = true =>
    change (chk_fields l f) with (chk MStates (JArr items) && true) in H end.
  rewrite andb_true_r, chk_states_arr in H. exact H.
Qed.

Theorem get_state_chk E : forall v, no_rank0 v = true -> P E v.
Proof.
  apply (pval_ind' (fun v => no_rank0 v = true -> P E v)).
  - (* leaves *)
    intros v Hl _ st j st' H. destruct v; try discriminate Hl; cbn [get_state] in H.
    + injection H as <- <-. unfold json_state. node. reflexivity.
    + injection H as <- <-. unfold json_state. node. reflexivity.
    + destruct (fresh_uuid st). injection H as <- <-. destruct ba; node; reflexivity.
    + discriminate.
    + inv_bind H. node. reflexivity.
    + injection H as <- <-. node. reflexivity.
    + destruct (fresh st). injection H as <- <-. node. cbn [chk]. reflexivity.
    + injection H as <- <-. node. reflexivity.
    + injection H as <- <-. node. reflexivity.
    + injection H as <- <-. unfold type_state. node. reflexivity.
    + discriminate.
  - (* PSeq *)
    intros q id m c nt l IH G st j st' H. cbn [get_state] in H. cbn [no_rank0] in G. rewrite no_rank0_all in G.
    inv_bind H. pose proof (states_chk E l (Forall_guard _ _ _ IH G) _ _ _ E0) as Hs.
    destruct q; node; rewrite chk_states_arr, Hs; reflexivity.
  - (* PDict *)
    intros id m c l IH G st j st' H. cbn [get_state] in H. cbn [no_rank0] in G. rewrite no_rank0_vals in G.
    destruct (fresh st) as [ktid st0]. inv_bind H. unfold dict_state, list_state.
    pose proof (content_chk E l (Forall_guard (fun kv => no_rank0 (snd kv)) (fun kv => P E (snd kv)) _ IH G) [] _ _ _ eq_refl E1) as Hc.
    node. rewrite chk_dict_obj, Hc. cbn [andb]. rewrite andb_true_r. node.
    rewrite chk_states_arr, (key_types_chk E _ _ E0). reflexivity.
  - (* PDefDict *)
    intros id m c f l IHf IH G st j st' H. cbn [get_state] in H. cbn [no_rank0] in G. rewrite no_rank0_vals in G.
    apply andb_prop in G. destruct G as [Gf G].
    destruct (fresh st) as [did st0]. destruct (fresh st0) as [ktid st0']. inv_bind H. unfold dict_state, list_state.
    pose proof (content_chk E l (Forall_guard (fun kv => no_rank0 (snd kv)) (fun kv => P E (snd kv)) _ IH G) [] _ _ _ eq_refl E1) as Hc.
    node. rewrite chk_dict_obj. cbn [chk_vals]. rewrite (IHf Gf _ _ _ E2). rewrite !andb_true_r.
    node. rewrite chk_dict_obj, Hc. cbn [andb]. rewrite andb_true_r. node.
    rewrite chk_states_arr, (key_types_chk E _ _ E0). reflexivity.
  - (* PObjArr *)
    intros id m c sh l IH G st j st' H. cbn [get_state] in H. cbn [no_rank0] in G.
    destruct sh as [|d sh]; [discriminate|]. rewrite no_rank0_all in G.
    destruct (tolist_state _ _ _) as [[[ser cs'] st1]|] eqn:E0; [|discriminate]. cbn [bind] in H.
    cbn [map] in E0. destruct (tolist_chk _ _ _ _ _ _ (closures_chk E l (Forall_guard _ _ _ IH G)) E0) as [Hser _].
    destruct (tolist_list_state _ _ _ _ _ _ _ E0) as [items [lid ->]].
    change (jindex (list_state items lid) (K "content")) with (Ok (A:=json) (JArr items)) in H. cbn [bind] in H.
    destruct (shape_state (d :: sh) st1) as [shj st2] eqn:E1. injection H as <- <-.
    apply list_state_inv in Hser.
    node. rewrite (shape_state_chk _ _ _ _ E1). rewrite chk_nd_arr, Hser. reflexivity.
  - (* PMasked *)
    intros id m c d k IHd IHk G st j st' H. cbn [get_state] in H. cbn [no_rank0] in G. apply andb_prop in G. destruct G as [Gd Gk].
    inv_bind H. node. rewrite chk_dict_obj. cbn [chk_vals]. rewrite (IHd Gd _ _ _ E0), (IHk Gk _ _ _ E1). reflexivity.
  - (* PRandState *)
    intros id m c x IHx G st j st' H. cbn [get_state] in H. cbn [no_rank0] in G.
    inv_bind H. node. rewrite (IHx G _ _ _ E0). reflexivity.
  - (* PRandGen *)
    intros id m c x y IHx IHy G st j st' H. cbn [get_state] in H. cbn [no_rank0] in G. apply andb_prop in G. destruct G as [Gx Gy].
    inv_bind H. node. rewrite chk_dict_obj. cbn [chk_vals]. rewrite (IHx Gx _ _ _ E0), (IHy Gy _ _ _ E1). reflexivity.
  - (* PPartial *)
    intros id m c f a k n IHf IHa IHk IHn G st j st' H. cbn [get_state] in H. cbn [no_rank0] in G.
    apply andb_prop in G. destruct G as [G Gn]. apply andb_prop in G. destruct G as [G Gk]. apply andb_prop in G. destruct G as [Gf Ga].
    inv_bind H. node. rewrite chk_dict_obj. cbn [chk_vals].
    rewrite (IHf Gf _ _ _ E0), (IHa Ga _ _ _ E1), (IHk Gk _ _ _ E2), (IHn Gn _ _ _ E3). reflexivity.
  - (* POpFunc *)
    intros id c a IHa G st j st' H. cbn [get_state] in H. cbn [no_rank0] in G.
    inv_bind H. node. rewrite (IHa G _ _ _ E0). reflexivity.
  - (* PMethod *)
    intros id m f x IHx G st j st' H. cbn [get_state] in H. cbn [no_rank0] in G.
    inv_bind H. node. cbn [chk]. change (pstr_eqb (K "func") (s "obj")) with false. change (pstr_eqb (K "obj") (s "obj")) with true.
    cbn iota. rewrite (IHx G _ _ _ E0). reflexivity.
  - (* PObj *)
    intros id m c hk h ok x _ IHx G st j st' H. cbn [get_state] in H. cbn [no_rank0] in G.
    destruct ok; inv_bind H.
    + node. rewrite (IHx G _ _ _ E0). reflexivity.
    + node. rewrite (IHx G _ _ _ E0). reflexivity.
    + node. reflexivity.
Qed.

(* the root state has no "protocol" / "_skops_version" field of its own *)
Lemma root_fields E v st j st' : get_state E v st = Ok (j, st') ->
  exists kv, j = JObj kv /\ dget (s "protocol") kv = None /\ dget (s "_skops_version") kv = None.
Proof.
  intros H. destruct v; cbn [get_state] in H;
    try (destruct q); try (destruct ok);
    try (destruct (fresh st) as [? ?]); try (destruct (fresh_uuid st) as [? ?]);
    try match type of H with context [fresh ?x] => destruct (fresh x) as [? ?] end;
    inv_bind H; try discriminate H;
    try (eexists; split; [reflexivity|split; reflexivity]).
  all: try (destruct ba; eexists; split; [reflexivity|split; reflexivity]).
  all: try (destruct (shape_state shape d0) as [? ?]; injection H as <- <-; eexists; split; [reflexivity|split; reflexivity]).
Qed.

Lemma dget_app_l {A} k (a b : list (pstr * A)) v : dget k a = Some v -> dget k (a ++ b) = Some v.
Proof. induction a as [|[k' x] a IH]; cbn [app dget]; [discriminate|]. destruct (pstr_eqb k k'); auto. Qed.
Lemma dget_app_none {A} k (a b : list (pstr * A)) : dget k a = None -> dget k (a ++ b) = dget k b.
Proof. induction a as [|[k' x] a IH]; cbn [app dget]; [reflexivity|]. destruct (pstr_eqb k k'); [discriminate|auto]. Qed.
Lemma has_key_app_l k a b : has_key k a = true -> has_key k (a ++ b) = true.
Proof. unfold has_key. destruct (dget k a) eqn:E; [|discriminate]. rewrite (dget_app_l _ _ _ _ E). reflexivity. Qed.

Lemma loader_of_app a b : mem (loader_of a) model_loaders = true -> loader_of (a ++ b) = loader_of a.
Proof.
  unfold loader_of. destruct (dget (s "__loader__") a) as [v|] eqn:E.
  - rewrite (dget_app_l _ _ _ _ E). reflexivity.
  - discriminate.
Qed.

Theorem dumps_schema_wf E base v a :
  dumps_model E base v = Ok a -> no_rank0 v = true ->
  schema_wf (dn_cur E) (dn_version E) (a_schema a) = true.
Proof.
  unfold dumps_model. intros H G.
  destruct (get_state E v (init_dst base)) as [[j st]|] eqn:E0; [|discriminate]. cbn [bind] in H.
  pose proof (get_state_chk E v G _ _ _ E0) as Hc.
  destruct (root_fields _ _ _ _ _ E0) as [kv [-> [Hp Hv]]].
  destruct (d_late st); [discriminate|]. injection H as <-. cbn [a_schema].
  unfold schema_wf. rewrite chk_state_obj in Hc. apply andb_prop in Hc. destruct Hc as [H4 Hf].
  unfold has4 in H4. apply andb_prop in H4. destruct H4 as [H4 Hl]. apply andb_prop in H4. destruct H4 as [H4 Hi].
  apply andb_prop in H4. destruct H4 as [Hcl Hm].
  rewrite chk_state_obj. unfold has4. rewrite (loader_of_app _ _ Hl), Hl.
  rewrite !has_key_app_l by assumption. rewrite chk_fields_app, Hf. cbn [andb].
  cbn [jindex]. rewrite (dget_app_none _ _ _ Hp), (dget_app_none _ _ _ Hv).
  repeat match goal with |- context [dget ?k (?x :: ?y)] =>
    let r := eval lazy in (dget k (x :: y)) in change (dget k (x :: y)) with r end.
  apply andb_true_intro; split; [apply andb_true_intro; split|].
  - vm_compute. reflexivity.
  - cbv beta iota. apply Z.eqb_refl.
  - cbv beta iota. change (pstr_eqb (dn_version E) (dn_version E) = true).
    generalize (dn_version E); intros t; induction t as [|c t IH]; cbn; [reflexivity|rewrite N.eqb_refl; exact IH].
Qed.
