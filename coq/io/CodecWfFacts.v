(* C12 facts: every state get_state emits is well-formed; members = file references; names flat. *)
From Skv Require Import CodecWf PyValInd.
From Coq Require Import Lia.

Ltac inv_bind H :=
  repeat match type of H with
  | bind ?r _ = Ok _ =>
      let E := fresh "E" in
      lazymatch type of r with
      | res (_ * _) => destruct r as [[? ?]|] eqn:E; [cbn [bind] in H | discriminate H]
      | _ => destruct r as [?|] eqn:E; [cbn [bind] in H | discriminate H]
      end
  | (let (_, _) := ?p in _) = Ok _ => destruct p eqn:?
  | (if ?b then _ else _) = Ok _ => destruct b eqn:?
  | Ok _ = Ok _ => injection H as <- <-
  | Raise _ = Ok _ => discriminate H
  end.

(* chk on the loops *)
Fixpoint chk_all (l : list json) : bool := match l with [] => true | x :: l' => chk MState x && chk_all l' end.
Fixpoint chk_vals (l : list (pstr * json)) : bool := match l with [] => true | (_, x) :: l' => chk MState x && chk_vals l' end.

Lemma chk_states_arr l : chk MStates (JArr l) = chk_all l.
Proof. cbn [chk]. induction l as [|x l IH]; cbn [chk_all]; [reflexivity|]. rewrite <- IH. reflexivity. Qed.
Lemma chk_nd_arr l : chk MNd (JArr l) = chk_all l.
Proof. cbn [chk]. induction l as [|x l IH]; cbn [chk_all]; [reflexivity|]. rewrite <- IH. reflexivity. Qed.
Lemma chk_dict_obj l : chk MDictStates (JObj l) = chk_vals l.
Proof. cbn [chk]. induction l as [|[k x] l IH]; cbn [chk_vals]; [reflexivity|]. rewrite <- IH. reflexivity. Qed.

Lemma chk_vals_jset k j acc : chk MState j = true -> chk_vals acc = true -> chk_vals (jset k j acc) = true.
Proof.
  intros Hj. induction acc as [|[k' x] acc IH]; cbn [jset chk_vals]; intros H.
  - rewrite Hj. reflexivity.
  - apply andb_prop in H. destruct H as [Hx Hacc]. destruct (pstr_eqb k k'); cbn [chk_vals].
    + rewrite Hj, Hacc. reflexivity.
    + rewrite Hx, (IH Hacc). reflexivity.
Qed.

Section Chk.
  Variable E : denv.
  Definition P (v : pval) : Prop := forall st j st', get_state E v st = Ok (j, st') -> chk MState j = true.

  Lemma states_chk l : Forall P l -> forall st js st', states_of (fun x s0 => get_state E x s0) l st = Ok (js, st') -> chk_all js = true.
  Proof.
    induction 1 as [|x l Hx Hl IH]; intros st js st' H; cbn [states_of] in H.
    - injection H as <- <-. reflexivity.
    - inv_bind H. cbn [chk_all]. rewrite (Hx _ _ _ E0), (IH _ _ _ E1). reflexivity.
  Qed.

  Lemma content_chk l : Forall (fun kv => P (snd kv)) l -> forall acc st cont st',
    chk_vals acc = true -> content_of (fun x s0 => get_state E x s0) l acc st = Ok (cont, st') -> chk_vals cont = true.
  Proof.
    induction 1 as [|[k x] l Hx Hl IH]; intros acc st cont st' Hacc H; cbn [content_of] in H.
    - injection H as <- <-. exact Hacc.
    - destruct (is_prop x); [eapply IH; eassumption|].
      inv_bind H. cbn [snd] in Hx. destruct (k_val k).
      + eapply IH; [|eassumption]. apply chk_vals_jset; [eapply Hx; eassumption|assumption].
      + eapply IH; eassumption.
  Qed.

  Lemma key_types_chk ks : forall js, key_type_states E ks = Ok js -> chk_all js = true.
  Proof.
    induction ks as [|k ks IH]; intros js H; cbn [key_type_states] in H.
    - injection H as <-. reflexivity.
    - destruct (dget _ _); [|discriminate]. destruct (key_type_states E ks); [|discriminate].
      cbn [bind] in H. injection H as <-. cbn [chk_all]. rewrite (IH _ eq_refl). rewrite andb_true_r. reflexivity.
  Qed.
End Chk.

Fixpoint chk_fields (l : pstr) (f : list (pstr * json)) : bool :=
  match f with [] => true | (k, x) :: f' => chk (field_mode l k) x && chk_fields l f' end.

Lemma chk_state_obj kv : chk MState (JObj kv) = has4 kv && chk_fields (loader_of kv) kv.
Proof.
  cbn [chk]. f_equal. generalize (loader_of kv) as l. intro l.
  induction kv as [|[k x] kv IH]; cbn [chk_fields]; [reflexivity|]. rewrite <- IH. reflexivity.
Qed.

Lemma chk_fields_app l a b : chk_fields l (a ++ b) = chk_fields l a && chk_fields l b.
Proof. induction a as [|[k x] a IH]; cbn [app chk_fields]; [reflexivity|]. rewrite IH, andb_assoc. reflexivity. Qed.

Lemma has_key_app_r k a v : has_key k (a ++ [(k, v)]) = true.
Proof.
  unfold has_key. induction a as [|[k' x] a IH]; cbn [app dget].
  - replace (pstr_eqb k k) with true; [reflexivity|]. clear. induction k; cbn; [reflexivity|]. rewrite N.eqb_refl. exact IHk.
  - destruct (pstr_eqb k k'); [reflexivity|exact IH].
Qed.

Lemma chk_node c m l fields id :
  mem l model_loaders = true -> chk_fields l fields = true ->
  chk MState (node_state c m l fields id) = true.
Proof.
  intros Hl Hf. unfold node_state. rewrite chk_state_obj.
  assert (HL : loader_of ((K "__class__", JStr c) :: (K "__module__", JStr m) :: (K "__loader__", JStr l)
                          :: fields ++ [(K "__id__", JInt id)]) = l) by reflexivity.
  rewrite HL. apply andb_true_intro. split.
  - unfold has4. rewrite HL, Hl.
    change (has_key (s "__class__") ((K "__class__", JStr c) :: (K "__module__", JStr m) :: (K "__loader__", JStr l) :: fields ++ [(K "__id__", JInt id)])) with true.
    change (has_key (s "__module__") ((K "__class__", JStr c) :: (K "__module__", JStr m) :: (K "__loader__", JStr l) :: fields ++ [(K "__id__", JInt id)])) with true.
    cbn [andb]. rewrite andb_true_r.
    change (has_key (s "__id__") ((K "__class__", JStr c) :: (K "__module__", JStr m) :: (K "__loader__", JStr l) :: fields ++ [(K "__id__", JInt id)]))
      with (has_key (s "__id__") (fields ++ [(K "__id__", JInt id)])).
    apply has_key_app_r.
  - change (chk_fields l ((K "__class__", JStr c) :: (K "__module__", JStr m) :: (K "__loader__", JStr l) :: fields ++ [(K "__id__", JInt id)]))
      with (chk_fields l (fields ++ [(K "__id__", JInt id)])).
    rewrite chk_fields_app, Hf. reflexivity.
Qed.

Lemma chk_raw_true j : chk MRaw j = true.
Proof. destruct j; reflexivity. Qed.

Ltac fm := repeat match goal with
  | |- context [field_mode ?a ?b] => let r := eval vm_compute in (field_mode a b) in change (field_mode a b) with r
  end.
Ltac node := apply chk_node; [reflexivity | cbn [chk_fields]; fm; rewrite ?chk_raw_true].


Lemma sbound_json_st b st j st' : sbound_json b st = Ok (j, st') -> True.
Proof. trivial. Qed.

(* ---- list facts for the chunked cells of an object array ---- *)
Lemma Forall_firstn {A} (Q : A -> Prop) k : forall l, Forall Q l -> Forall Q (firstn k l).
Proof. induction k as [|k IH]; intros l H; [constructor|]. destruct H; cbn [firstn]; constructor; auto. Qed.
Lemma Forall_skipn {A} (Q : A -> Prop) k : forall l, Forall Q l -> Forall Q (skipn k l).
Proof. induction k as [|k IH]; intros l H; [exact H|]. destruct H; cbn [skipn]; [constructor|auto]. Qed.
Lemma chunks_Forall {A} (Q : A -> Prop) k d : forall l, Forall Q l -> Forall (Forall Q) (chunks k d l).
Proof.
  induction d as [|d IH]; intros l H; cbn [chunks]; constructor; [apply Forall_firstn; exact H|].
  apply IH. apply Forall_skipn. exact H.
Qed.

Lemma chunks_len_each {A} k d : forall (l : list A), length l = (d * k)%nat -> Forall (fun ch => length ch = k) (chunks k d l).
Proof.
  induction d as [|d IH]; intros l Hl; cbn [chunks]; constructor.
  - rewrite firstn_length. cbn in Hl. lia.
  - apply IH. rewrite skipn_length. cbn in Hl. lia.
Qed.
Lemma chunks_len_in {A} k d (l ch : list A) : length l = (d * k)%nat -> In ch (chunks k d l) -> length ch = k.
Proof. intros Hl Hin. pose proof (chunks_len_each k d l Hl) as H. rewrite Forall_forall in H. apply H. exact Hin. Qed.
Lemma in_chunks {A} k d : forall (l : list A) x, length l = (d * k)%nat -> In x l -> exists ch, In ch (chunks k d l) /\ In x ch.
Proof.
  induction d as [|d IH]; intros l x Hl Hx.
  - destruct l; [destruct Hx|discriminate Hl].
  - cbn [chunks]. rewrite <- (firstn_skipn k l) in Hx. apply in_app_or in Hx. destruct Hx as [Hx|Hx].
    + exists (firstn k l). split; [left; reflexivity|exact Hx].
    + destruct (IH (skipn k l) x) as [ch [H1 H2]]; [rewrite skipn_length; cbn in Hl; lia|exact Hx|].
      exists ch. split; [right; exact H1|exact H2].
Qed.
(* the shape of an array that satisfies shape_okb, as naturals *)
Lemma shape_ok_nat shape n : shape_okb shape n = true ->
  Forall (fun d => (0 <= d)%Z) shape /\ map Z.of_nat (map Z.to_nat shape) = shape /\ n = nprod (map Z.to_nat shape).
Proof.
  unfold shape_okb. intros H. apply andb_prop in H. destruct H as [H1 H2]. apply Z.eqb_eq in H2.
  assert (Hf : Forall (fun d => (0 <= d)%Z) shape).
  { rewrite forallb_forall in H1. apply Forall_forall. intros d Hd. apply Z.leb_le. apply H1. exact Hd. }
  split; [exact Hf|]. split.
  - clear -Hf. induction Hf as [|d l Hd Hl IH]; [reflexivity|]. cbn [map]. rewrite IH, Z2Nat.id by exact Hd. reflexivity.
  - apply Nat2Z.inj. rewrite <- H2. clear -Hf. induction Hf as [|d l Hd Hl IH]; [reflexivity|].
    cbn [map nprod zprod]. rewrite Nat2Z.inj_mul, <- IH, Z2Nat.id by exact Hd. reflexivity.
Qed.

(* a property of closures that holds of the cells' closures holds of every closure tolist_state builds from them, provided
   it holds of the closure that refuses and of the closure "a fresh list around these closures" *)
Definition list_clo (cs : list clo) : clo :=
  fun st => let (lid, st0) := fresh st in do (items, st1) <- run_all cs st0; Ok (list_state items lid, st1).
Lemma tolist_state_cons d dims cs : tolist_state (d :: dims) cs = list_clo (map (tolist_state dims) (chunks (nprod dims) d cs)).
Proof. reflexivity. Qed.
Section CloInd.
  Variable Pc : clo -> Prop.
  Hypothesis Pdom : Pc (fun _ => Raise EDomain).
  Hypothesis Plist : forall cs, Forall Pc cs -> Pc (list_clo cs).
  Lemma tolist_clo_ind : forall dims cs, Forall Pc cs -> Pc (tolist_state dims cs).
  Proof.
    induction dims as [|d dims IH]; intros cs Hcs.
    - cbn [tolist_state]. destruct cs as [|c [|c' cs]]; try exact Pdom. inversion Hcs; assumption.
    - rewrite tolist_state_cons. apply Plist. apply Forall_forall. intros c Hc. apply in_map_iff in Hc. destruct Hc as [ch [<- Hch]].
      apply IH. pose proof (chunks_Forall Pc (nprod dims) d cs Hcs) as Hf. rewrite Forall_forall in Hf. apply Hf. exact Hch.
  Qed.
  Lemma content_clos_ind dims cs : Forall Pc cs -> Forall Pc (content_clos dims cs).
  Proof.
    intros Hcs. destruct dims as [|d dims]; cbn [content_clos].
    - constructor; [apply tolist_clo_ind; exact Hcs|constructor].
    - apply Forall_forall. intros c Hc. apply in_map_iff in Hc. destruct Hc as [ch [<- Hch]].
      apply tolist_clo_ind. pose proof (chunks_Forall Pc (nprod dims) d cs Hcs) as Hf. rewrite Forall_forall in Hf. apply Hf. exact Hch.
  Qed.
End CloInd.

Definition chk_clo (c : clo) : Prop := forall st j st', c st = Ok (j, st') -> chk MState j = true.
Lemma run_all_chk cs : Forall chk_clo cs -> forall st js st', run_all cs st = Ok (js, st') -> chk_all js = true.
Proof.
  induction 1 as [|c cs Hc Hcs IH]; intros st js st' H; cbn [run_all] in H.
  - injection H as <- <-. reflexivity.
  - inv_bind H. cbn [chk_all]. rewrite (Hc _ _ _ E), (IH _ _ _ E0). reflexivity.
Qed.

Lemma closures_chk E l : Forall (P E) l -> Forall chk_clo (map (fun x s0 => get_state E x s0) l).
Proof. induction 1; cbn [map]; constructor; auto. Qed.

Lemma shape_items_chk dims : forall st js st', shape_items dims st = (js, st') -> chk_all js = true.
Proof.
  induction dims as [|d dims IH]; intros st js st' H; cbn [shape_items] in H.
  - injection H as <- <-. reflexivity.
  - destruct (int_obj d st) as [i st1]. destruct (shape_items dims st1) as [rest st2] eqn:E1.
    injection H as <- <-. cbn [chk_all]. rewrite (IH _ _ _ E1), andb_true_r. unfold json_state. node. reflexivity.
Qed.

Lemma shape_state_chk dims st j st' : shape_state dims st = (j, st') -> chk MState j = true.
Proof.
  unfold shape_state. intros H.
  destruct (match dims with [] => (empty_tuple_id, st) | _ :: _ => fresh st end) as [tid st0].
  destruct (shape_items dims st0) as [items st1] eqn:E1. injection H as <- <-.
  node. rewrite chk_states_arr, (shape_items_chk _ _ _ _ E1). reflexivity.
Qed.

Lemma Forall_guard {A} (G : A -> bool) (Q : A -> Prop) l :
  Forall (fun x => G x = true -> Q x) l -> forallb G l = true -> Forall Q l.
Proof.
  induction 1 as [|x l Hx Hl IH]; intros H; [constructor|]. cbn [forallb] in H. apply andb_prop in H. destruct H.
  constructor; auto.
Qed.

Theorem get_state_chk E : forall v, P E v.
Proof.
  apply (pval_ind' (P E)).
  - (* leaves *)
    intros v Hl st j st' H. destruct v; try discriminate Hl; cbn [get_state] in H.
    + injection H as <- <-. unfold json_state. node. reflexivity.
    + injection H as <- <-. unfold json_state. node. reflexivity.
    + destruct (fresh_uuid st). injection H as <- <-. destruct ba; node; reflexivity.
    + discriminate.
    + inv_bind H. node. reflexivity.
    + injection H as <- <-. node. reflexivity.
    + destruct (fresh st). injection H as <- <-. node. cbn [chk]. reflexivity.
    + injection H as <- <-. node. reflexivity.
    + injection H as <- <-. node. reflexivity.
    + injection H as <- <-. unfold type_state. node. reflexivity.
    + discriminate.
  - (* PSeq *)
    intros q id m c nt l IH st j st' H. cbn [get_state] in H.
    inv_bind H. pose proof (states_chk E l IH _ _ _ E0) as Hs.
    destruct q; node; rewrite chk_states_arr, Hs; reflexivity.
  - (* PDict *)
    intros id m c l IH st j st' H. cbn [get_state] in H.
    destruct (fresh st) as [ktid st0]. inv_bind H. unfold dict_state, list_state.
    pose proof (content_chk E l IH [] _ _ _ eq_refl E1) as Hc.
    node. rewrite chk_dict_obj, Hc. cbn [andb]. rewrite andb_true_r. node.
    rewrite chk_states_arr, (key_types_chk E _ _ E0). reflexivity.
  - (* PDefDict *)
    intros id m c f l IHf IH st j st' H. cbn [get_state] in H.
    destruct (fresh st) as [did st0]. destruct (fresh st0) as [ktid st0']. inv_bind H. unfold dict_state, list_state.
    pose proof (content_chk E l IH [] _ _ _ eq_refl E1) as Hc.
    node. rewrite chk_dict_obj. cbn [chk_vals]. rewrite (IHf _ _ _ E2). rewrite !andb_true_r.
    node. rewrite chk_dict_obj, Hc. cbn [andb]. rewrite andb_true_r. node.
    rewrite chk_states_arr, (key_types_chk E _ _ E0). reflexivity.
  - (* PObjArr: every rank; the content is the list of the states of obj.tolist()'s items (rank 0: of [cell]) *)
    intros id m c sh l IH st j st' H. cbn [get_state] in H.
    destruct (shape_okb sh (length l)); [|discriminate H].
    destruct (fresh st) as [lid st0].
    destruct (run_all _ st0) as [[items st1]|] eqn:E0; [|discriminate H]. cbn [bind] in H.
    destruct (shape_state sh st1) as [shj st2] eqn:E1. injection H as <- <-.
    assert (Hcl : Forall chk_clo (content_clos (map Z.to_nat sh) (map (fun x s0 => get_state E x s0) l))).
    { apply content_clos_ind; [intros st3 j3 st3' H3; discriminate H3| |apply closures_chk; exact IH].
      intros cs Hcs st3 j3 st3' H3. unfold list_clo in H3. destruct (fresh st3) as [lid3 st4].
      destruct (run_all cs st4) as [[items3 st5]|] eqn:E3; [|discriminate H3]. cbn [bind] in H3. injection H3 as <- <-.
      unfold list_state. node. rewrite chk_states_arr, (run_all_chk cs Hcs _ _ _ E3). reflexivity. }
    node. rewrite (shape_state_chk _ _ _ _ E1). rewrite chk_nd_arr, (run_all_chk _ Hcl _ _ _ E0). reflexivity.
  - (* PMasked *)
    intros id m c d k IHd IHk st j st' H. cbn [get_state] in H.
    inv_bind H. node. rewrite chk_dict_obj. cbn [chk_vals]. rewrite (IHd _ _ _ E0), (IHk _ _ _ E1). reflexivity.
  - (* PRandState *)
    intros id m c x IHx st j st' H. cbn [get_state] in H.
    inv_bind H. node. rewrite (IHx _ _ _ E0). reflexivity.
  - (* PRandGen *)
    intros id m c x y IHx IHy st j st' H. cbn [get_state] in H.
    inv_bind H. node. rewrite chk_dict_obj. cbn [chk_vals]. rewrite (IHx _ _ _ E0), (IHy _ _ _ E1). reflexivity.
  - (* PPartial *)
    intros id m c f a k n IHf IHa IHk IHn st j st' H. cbn [get_state] in H.
    inv_bind H. node. rewrite chk_dict_obj. cbn [chk_vals].
    rewrite (IHf _ _ _ E0), (IHa _ _ _ E1), (IHk _ _ _ E2), (IHn _ _ _ E3). reflexivity.
  - (* POpFunc *)
    intros id c a IHa st j st' H. cbn [get_state] in H.
    inv_bind H. node. rewrite (IHa _ _ _ E0). reflexivity.
  - (* PMethod *)
    intros id m f x IHx st j st' H. cbn [get_state] in H.
    inv_bind H. node. cbn [chk]. change (pstr_eqb (K "func") (s "obj")) with false. change (pstr_eqb (K "obj") (s "obj")) with true.
    cbn iota. rewrite (IHx _ _ _ E0). reflexivity.
  - (* PObj *)
    intros id m c hk h ok x _ IHx st j st' H. cbn [get_state] in H.
    destruct ok; inv_bind H.
    + node. rewrite (IHx _ _ _ E0). reflexivity.
    + node. rewrite (IHx _ _ _ E0). reflexivity.
    + node. reflexivity.
Qed.

(* the root state has no "protocol" / "_skops_version" field of its own *)
Lemma root_fields E v st j st' : get_state E v st = Ok (j, st') ->
  exists kv, j = JObj kv /\ dget (s "protocol") kv = None /\ dget (s "_skops_version") kv = None.
Proof.
  intros H. destruct v; cbn [get_state] in H;
    try (destruct q); try (destruct ok);
    try (destruct (fresh st) as [? ?]); try (destruct (fresh_uuid st) as [? ?]);
    try match type of H with context [fresh ?x] => destruct (fresh x) as [? ?] end;
    inv_bind H; try discriminate H;
    try (eexists; split; [reflexivity|split; reflexivity]).
  all: try (destruct ba; eexists; split; [reflexivity|split; reflexivity]).
  all: try (destruct (shape_state shape d0) as [? ?]; injection H as <- <-; eexists; split; [reflexivity|split; reflexivity]).
Qed.

Lemma dget_app_l {A} k (a b : list (pstr * A)) v : dget k a = Some v -> dget k (a ++ b) = Some v.
Proof. induction a as [|[k' x] a IH]; cbn [app dget]; [discriminate|]. destruct (pstr_eqb k k'); auto. Qed.
Lemma dget_app_none {A} k (a b : list (pstr * A)) : dget k a = None -> dget k (a ++ b) = dget k b.
Proof. induction a as [|[k' x] a IH]; cbn [app dget]; [reflexivity|]. destruct (pstr_eqb k k'); [discriminate|auto]. Qed.
Lemma has_key_app_l k a b : has_key k a = true -> has_key k (a ++ b) = true.
Proof. unfold has_key. destruct (dget k a) eqn:E; [|discriminate]. rewrite (dget_app_l _ _ _ _ E). reflexivity. Qed.

Lemma loader_of_app a b : mem (loader_of a) model_loaders = true -> loader_of (a ++ b) = loader_of a.
Proof.
  unfold loader_of. destruct (dget (s "__loader__") a) as [v|] eqn:E.
  - rewrite (dget_app_l _ _ _ _ E). reflexivity.
  - discriminate.
Qed.

Theorem dumps_schema_wf E base v a :
  dumps_model E base v = Ok a ->
  schema_wf (dn_cur E) (dn_version E) (a_schema a) = true.
Proof.
  unfold dumps_model. intros H.
  destruct (get_state E v (init_dst base)) as [[j st]|] eqn:E0; [|discriminate]. cbn [bind] in H.
  pose proof (get_state_chk E v _ _ _ E0) as Hc.
  destruct (root_fields _ _ _ _ _ E0) as [kv [-> [Hp Hv]]].
  destruct (d_late st); [discriminate|]. injection H as <-. cbn [a_schema].
  unfold schema_wf. rewrite chk_state_obj in Hc. apply andb_prop in Hc. destruct Hc as [H4 Hf].
  unfold has4 in H4. apply andb_prop in H4. destruct H4 as [H4 Hl]. apply andb_prop in H4. destruct H4 as [H4 Hi].
  apply andb_prop in H4. destruct H4 as [Hcl Hm].
  rewrite chk_state_obj. unfold has4. rewrite (loader_of_app _ _ Hl), Hl.
  rewrite !has_key_app_l by assumption. rewrite chk_fields_app, Hf. cbn [andb].
  cbn [jindex]. rewrite (dget_app_none _ _ _ Hp), (dget_app_none _ _ _ Hv).
  repeat match goal with |- context [dget ?k (?x :: ?y)] =>
    let r := eval lazy in (dget k (x :: y)) in change (dget k (x :: y)) with r end.
  apply andb_true_intro; split; [apply andb_true_intro; split|].
  - vm_compute. reflexivity.
  - cbv beta iota. apply Z.eqb_refl.
  - cbv beta iota. change (pstr_eqb (dn_version E) (dn_version E) = true).
    generalize (dn_version E); intros t; induction t as [|c t IH]; cbn; [reflexivity|rewrite N.eqb_refl; exact IH].
Qed.
