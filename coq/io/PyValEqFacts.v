From Skv Require Import PyStrFacts PyVal PyValInd.
From Coq Require Import Lia.

Lemma scalar_eqb_true a b : scalar_eqb a b = true -> a = b.
Proof.
  destruct a, b; cbn; try discriminate; intros H; try reflexivity; f_equal;
    try (apply Bool.eqb_prop; exact H); try (apply Z.eqb_eq; exact H); apply pstr_eqb_eq; exact H.
Qed.
Lemma dkey_eqb_true a b : dkey_eqb a b = true -> a = b.
Proof.
  destruct a as [m c v], b as [m' c' v']. unfold dkey_eqb. cbn [k_mod k_cls k_val]. intros H.
  apply andb_prop in H. destruct H as [H H3]. apply andb_prop in H. destruct H as [H1 H2].
  apply pstr_eqb_eq in H1, H2. subst. f_equal.
  destruct v, v'; cbn in H3; try discriminate; [|reflexivity]. f_equal. apply scalar_eqb_true. exact H3.
Qed.
Lemma sbound_eqb_true a b : sbound_eqb a b = true -> a = b.
Proof. destruct a, b; cbn; try discriminate; intros H; [f_equal; apply scalar_eqb_true; exact H|reflexivity]. Qed.
Lemma zlist_eqb_true a : forall b, zlist_eqb a b = true -> a = b.
Proof.
  induction a as [|x a IH]; destruct b as [|y b]; cbn; try discriminate; [reflexivity|]. intros H.
  apply andb_prop in H. destruct H as [H1 H2]. apply Z.eqb_eq in H1. subst. f_equal. auto.
Qed.
Lemma seqkind_eqb_true a b : seqkind_eqb a b = true -> a = b.
Proof. destruct a, b; cbn; try discriminate; reflexivity. Qed.
Lemma hkind_eqb_true a b : hkind_eqb a b = true -> a = b.
Proof. destruct a, b; cbn; try discriminate; reflexivity. Qed.

Ltac split_and H :=
  repeat match type of H with
  | (_ && _) = true => let H1 := fresh "H" in apply andb_prop in H; destruct H as [H H1]; split_and H1
  end.

Ltac fin :=
  repeat match goal with
  | H : (_ && _) = true |- _ => let H1 := fresh "H" in apply andb_prop in H; destruct H as [H H1]
  | H : Z.eqb _ _ = true |- _ => apply Z.eqb_eq in H; subst
  | H : pstr_eqb _ _ = true |- _ => apply pstr_eqb_eq in H; subst
  | H : Bool.eqb _ _ = true |- _ => apply Bool.eqb_prop in H; subst
  | H : scalar_eqb _ _ = true |- _ => apply scalar_eqb_true in H; subst
  | H : sbound_eqb _ _ = true |- _ => apply sbound_eqb_true in H; subst
  | H : zlist_eqb _ _ = true |- _ => apply zlist_eqb_true in H; subst
  | H : seqkind_eqb _ _ = true |- _ => apply seqkind_eqb_true in H; subst
  | H : hkind_eqb _ _ = true |- _ => apply hkind_eqb_true in H; subst
  end.

Definition list_eqb_ (l1 l2 : list pval) : bool :=
  (fix list_eqb (l1 l2 : list pval) {struct l1} : bool :=
     match l1, l2 with
     | [], [] => true
     | x :: l1', y :: l2' => pval_eqb x y && list_eqb l1' l2'
     | _, _ => false
     end) l1 l2.
Definition items_eqb_ (l1 l2 : list (dkey * pval)) : bool :=
  (fix items_eqb (l1 l2 : list (dkey * pval)) {struct l1} : bool :=
     match l1, l2 with
     | [], [] => true
     | (k1, x) :: l1', (k2, y) :: l2' => dkey_eqb k1 k2 && pval_eqb x y && items_eqb l1' l2'
     | _, _ => false
     end) l1 l2.

Lemma list_eqb_true l1 : Forall (fun a => forall b, pval_eqb a b = true -> a = b) l1 ->
  forall l2, list_eqb_ l1 l2 = true -> l1 = l2.
Proof.
  induction 1 as [|x l1 Hx Hl IH]; destruct l2 as [|y l2]; cbn; try discriminate; [reflexivity|]. intros H.
  apply andb_prop in H. destruct H as [H1 H2]. f_equal; [apply Hx; exact H1|apply IH; exact H2].
Qed.
Lemma items_eqb_true l1 : Forall (fun kv => forall b, pval_eqb (snd kv) b = true -> snd kv = b) l1 ->
  forall l2, items_eqb_ l1 l2 = true -> l1 = l2.
Proof.
  induction 1 as [|[k x] l1 Hx Hl IH]; destruct l2 as [|[k' y] l2]; cbn; try discriminate; [reflexivity|]. intros H.
  apply andb_prop in H. destruct H as [H H2]. apply andb_prop in H. destruct H as [H0 H1].
  apply dkey_eqb_true in H0. subst. cbn [snd] in Hx. rewrite (Hx _ H1). f_equal. apply IH. exact H2.
Qed.

Theorem pval_eqb_true : forall a b, pval_eqb a b = true -> a = b.
Proof.
  apply (pval_ind' (fun a => forall b, pval_eqb a b = true -> a = b)).
  - intros a Hl b H. destruct a; try discriminate Hl; destruct b; cbn [pval_eqb] in H; try discriminate H; fin; reflexivity.
  - intros q id m c nt l IH b H. destruct b; cbn [pval_eqb] in H; try discriminate H. fin.
    fold (list_eqb_ l items) in *. f_equal. apply (list_eqb_true _ IH). assumption.
  - intros id m c l IH b H. destruct b; cbn [pval_eqb] in H; try discriminate H. fin.
    fold (items_eqb_ l items) in *. f_equal. apply (items_eqb_true _ IH). assumption.
  - intros id m c f l IHf IH b H. destruct b; cbn [pval_eqb] in H; try discriminate H. fin.
    fold (items_eqb_ l items) in *. f_equal; [apply IHf; assumption|apply (items_eqb_true _ IH); assumption].
  - intros id m c sh l IH b H. destruct b; cbn [pval_eqb] in H; try discriminate H. fin.
    fold (list_eqb_ l cells) in *. f_equal. apply (list_eqb_true _ IH). assumption.
  - intros id m c d k IHd IHk b H. destruct b; cbn [pval_eqb] in H; try discriminate H. fin. f_equal; auto.
  - intros id m c x IHx b H. destruct b; cbn [pval_eqb] in H; try discriminate H. fin. f_equal; auto.
  - intros id m c x y IHx IHy b H. destruct b; cbn [pval_eqb] in H; try discriminate H. fin. f_equal; auto.
  - intros id m c f a k n IHf IHa IHk IHn b H. destruct b; cbn [pval_eqb] in H; try discriminate H. fin. f_equal; auto.
  - intros id c a IHa b H. destruct b; cbn [pval_eqb] in H; try discriminate H. fin. f_equal; auto.
  - intros id m f x IHx b H. destruct b; cbn [pval_eqb] in H; try discriminate H. fin. f_equal; auto.
  - intros id m c hk h ok x IHh IHx b H. destruct b; cbn [pval_eqb] in H; try discriminate H. fin.
    fold (list_eqb_ h hidden) in *. f_equal; [apply (list_eqb_true _ IHh); assumption| |apply IHx; assumption].
    destruct ok, ok0; cbn in *; try discriminate; try reflexivity. f_equal.
    destruct e, e0; cbn in *; try discriminate; try reflexivity; f_equal; try (apply pstr_eqb_eq; assumption).
    match goal with Hx : pstrs_eqb _ _ = true |- _ => revert Hx end. generalize names0. clear. induction names as [|x a IH]; destruct names0 as [|y b]; cbn; try discriminate; [reflexivity|].
    intros H. apply andb_prop in H. destruct H as [H1 H2]. apply pstr_eqb_eq in H1. subst. f_equal. auto.
Qed.
