(* Canonical texts of model results: the abstraction `abs` of a value (harness/absval.py, after
   harness/pval_emit.py:canon), the normalised schema and the member list.  Model only. *)
From Skv Require Export CodecLoad IoShow.

Inductive sx := XNull | XBool (b : bool) | XInt (z : Z) | XStr (t : pstr) | XRaw (t : pstr) | XList (l : list sx).

Definition atom (t : pstr) : pstr := 115%N :: show_N (N.of_nat (length t)) ++ 58%N :: t.

Fixpoint render (x : sx) : pstr :=
  match x with
  | XNull => [126%N]
  | XBool b => if b then [84%N] else [70%N]
  | XInt z => 105%N :: show_Z z
  | XStr t => atom t
  | XRaw t => t
  | XList l => 40%N :: join [32%N] ((fix go (l : list sx) : list pstr :=
                                       match l with [] => [] | x :: l' => render x :: go l' end) l) ++ [41%N]
  end.

Definition X (t : string) : sx := XStr (s t).

Definition scalar_sx (sc : scalar) : sx :=
  match sc with
  | SNone => XList [X "builtins.NoneType"; XNull]
  | SBool b => XList [X "builtins.bool"; XBool b]
  | SInt z => XList [X "builtins.int"; XInt z]
  | SFloat t => XList [X "builtins.float"; XStr t]
  | SStr t => XList [X "builtins.str"; XStr t]
  end.

Definition key_sx (k : dkey) : sx :=
  match k_val k with
  | None => X "?"
  | Some sc =>
      if is_np_mod (k_mod k) then XList [X "npkey"; XStr (qual (k_mod k) (k_cls k)); scalar_sx sc]
      else match scalar_sx sc with
           | XList (_ :: rest) => XList (XStr (qual (k_mod k) (k_cls k)) :: rest)
           | x => x
           end
  end.

Definition bound_sx (b : sbound) : sx :=
  match b with BScalar sc => scalar_sx sc | BOther => X "?" end.

Fixpoint index_of (i : Z) (l : list Z) (n : Z) : option Z :=
  match l with [] => None | x :: l' => if Z.eqb x i then Some n else index_of i l' (n + 1)%Z end.

(* objects with identity: first occurrence numbered in traversal order, later ones are refs *)
Definition with_identity (id : Z) (tn : pstr) (seen : list Z) (k : list Z -> sx * list Z) : sx * list Z :=
  match index_of id seen 0%Z with
  | Some i => (XList [X "ref"; XInt i], seen)
  | None =>
      let me := Z.of_nat (length seen) in
      let (p, seen') := k (seen ++ [id]) in
      (XList [X "obj"; XInt me; XStr tn; p], seen')
  end.

Fixpoint insert_text (x : pstr) (l : list pstr) : list pstr :=
  match l with
  | [] => [x]
  | y :: l' => if pstr_ltb y x then y :: insert_text x l' else x :: l
  end.
Definition sort_texts (l : list pstr) : list pstr := fold_right insert_text [] l.

Fixpoint abs_of (v : pval) (seen : list Z) {struct v} : sx * list Z :=
  let fix abs_list (l : list pval) (seen : list Z) {struct l} : list sx * list Z :=
    match l with
    | [] => ([], seen)
    | x :: l' => let (a, s1) := abs_of x seen in let (r, s2) := abs_list l' s1 in (a :: r, s2)
    end in
  let fix abs_items (l : list (dkey * pval)) (seen : list Z) {struct l} : list sx * list Z :=
    match l with
    | [] => ([], seen)
    | (k, x) :: l' =>
        let (a, s1) := abs_of x seen in let (r, s2) := abs_items l' s1 in
        (XList [key_sx k; a] :: r, s2)
    end in
  let set_payload (l : list pval) (seen : list Z) : sx * list Z :=
    let (xs, s1) := abs_list l seen in
    (XList [X "set"; XList (map XRaw (sort_texts (map render xs)))], s1) in
  match v with
  | PScalar _ sc => (scalar_sx sc, seen)
  | PSub _ m c sc => (XList [X "sub"; XStr (qual m c); scalar_sx sc], seen)
  | PBytes id ba m c tok =>
      if ba then with_identity id (qual m c) seen (fun s1 => (XStr tok, s1))
      else (XList [XStr (qual m c); XStr tok], seen)
  | PSeq q id m c _ l =>
      with_identity id (qual m c) seen (fun s1 =>
        match q with
        | QSet => set_payload l s1
        | _ => let (xs, s2) := abs_list l s1 in (XList [X "seq"; XList xs; XNull], s2)
        end)
  | PDict id m c l =>
      with_identity id (qual m c) seen (fun s1 =>
        let (xs, s2) := abs_items l s1 in (XList [X "dict"; XList xs; XNull], s2))
  | PDefDict id m c f l =>
      with_identity id (qual m c) seen (fun s1 =>
        let (xs, s2) := abs_items l s1 in
        let (fx, s3) := abs_of f s2 in
        (XList [X "dict"; XList xs; fx], s3))
  | PProp _ => (XList [X "prop"], seen)
  | PSlice id a b c =>
      with_identity id (s "builtins.slice") seen (fun s1 => (XList [bound_sx a; bound_sx b; bound_sx c], s1))
  | PArr id gen m c tok =>
      if gen then (XList [X "npgen"; XStr (qual m c); XStr tok], seen)
      else with_identity id (qual m c) seen (fun s1 => (XList [X "array"; XStr tok], s1))
  | PObjArr id m c shape cells =>
      with_identity id (qual m c) seen (fun s1 =>
        let (xs, s2) := abs_list cells s1 in
        (XList [X "objarray"; XList (map XInt shape); XList xs], s2))
  | PMasked id m c d k =>
      with_identity id (qual m c) seen (fun s1 =>
        let (dx, s2) := abs_of d s1 in let (kx, s3) := abs_of k s2 in
        (XList [X "masked"; dx; kx], s3))
  | PDType _ tok => (XList [X "numpy.dtype"; XStr tok], seen)
  | PRandState id m c st =>
      with_identity id (qual m c) seen (fun s1 => let (x, s2) := abs_of st s1 in (XList [X "rng"; x], s2))
  | PRandGen id m c bg ss =>
      with_identity id (qual m c) seen (fun s1 =>
        let (x, s2) := abs_of bg s1 in let (y, s3) := abs_of ss s2 in (XList [X "rng"; x; y], s3))
  | PSparse id m c tok => with_identity id (qual m c) seen (fun s1 => (XList [X "sparse"; XStr tok], s1))
  | PFunc _ m c | PType _ m c => (XList [X "name"; XStr (qual m c)], seen)
  | PPartial id m c f a k _ =>
      with_identity id (qual m c) seen (fun s1 =>
        let (fx, s2) := abs_of f s1 in let (ax, s3) := abs_of a s2 in let (kx, s4) := abs_of k s3 in
        (XList [X "partial"; fx; ax; kx], s4))
  | POpFunc id c a =>
      with_identity id (qual (s "operator") c) seen (fun s1 =>
        let (ax, s2) := abs_of a s1 in (XList [X "opfunc"; ax], s2))
  | PMethod _ _ f self => let (x, s1) := abs_of self seen in (XList [X "method"; XStr f; x], s1)
  | PObj id m c hk hidden ok arg =>
      with_identity id (qual m c) seen (fun s1 =>
        match hk with
        | HKSet => set_payload hidden s1
        | HKSeq => let (xs, s2) := abs_list hidden s1 in (XList [X "seq"; XList xs; XNull], s2)
        | HKNone =>
            match ok with
            | OKReduce => let (x, s2) := abs_of arg s1 in (XList [X "reduce2"; x], s2)
            | OKState => let (x, s2) := abs_of arg s1 in (XList [X "state"; x], s2)
            | _ => (XList [X "state"; XNull], s1)
            end
        end)
  | PUnsup _ _ _ => (X "unsup", seen)
  end.

Definition show_val (v : pval) : pstr := render (fst (abs_of v [])).

(* ---------- schema text ---------- *)
Fixpoint render_json (j : json) : pstr :=
  match j with
  | JNull => [126%N]
  | JBool b => if b then [84%N] else [70%N]
  | JInt z => 105%N :: show_Z z
  | JFloat t => 104%N :: show_Z t
  | JStr t => atom t
  | JArr l => 91%N :: join [44%N] ((fix go (l : list json) : list pstr :=
                                      match l with [] => [] | x :: l' => render_json x :: go l' end) l) ++ [93%N]
  | JObj kv => 123%N :: join [44%N] ((fix go (l : list (pstr * json)) : list pstr :=
                                        match l with [] => [] | (k, x) :: l' => (atom k ++ 61%N :: render_json x) :: go l' end) kv)
               ++ [125%N]
  end.

Fixpoint index_pstr (x : pstr) (l : list pstr) (n : N) : option N :=
  match l with [] => None | y :: l' => if pstr_eqb x y then Some n else index_pstr x l' (n + 1)%N end.

(* Path(name).suffix *)
Fixpoint suffix_from (t : pstr) (cur : option pstr) : pstr :=
  match t with
  | [] => match cur with Some x => x | None => [] end
  | c :: t' => if N.eqb c dot then suffix_from t' (Some [dot]) else
               suffix_from t' (match cur with Some x => Some (x ++ [c]) | None => None end)
  end.
Definition suffix (t : pstr) : pstr :=
  match t with [] => [] | c :: t' => suffix_from t' None end.

Definition nst := (list Z * list pstr)%type.
Definition member_alias (n : N) (f : pstr) : pstr := s "member" ++ show_N n ++ suffix f.

(* harness/impl_codec.py:norm_schema *)
Fixpoint norm (j : json) (st : nst) {struct j} : json * nst :=
  match j with
  | JObj kv =>
      let (kv', st') :=
        (fix go (l : list (pstr * json)) (st : nst) {struct l} : list (pstr * json) * nst :=
           match l with
           | [] => ([], st)
           | (k, x) :: l' =>
               let (x', st1) :=
                 if pstr_eqb k (s "__id__") then
                   match x with
                   | JInt z => match index_of z (fst st) 0%Z with
                               | Some i => (JInt i, st)
                               | None => (JInt (Z.of_nat (length (fst st))), (fst st ++ [z], snd st))
                               end
                   | _ => (x, st)
                   end
                 else if pstr_eqb k (s "file") then
                   match x with
                   | JStr f => match index_pstr f (snd st) 0%N with
                               | Some i => (JStr (member_alias i f), st)
                               | None => (JStr (member_alias (N.of_nat (length (snd st))) f), (fst st, snd st ++ [f]))
                               end
                   | _ => norm x st
                   end
                 else if pstr_eqb k (s "_skops_version") then (JStr (s "V"), st)
                 else norm x st in
               let (r, st2) := go l' st1 in ((k, x') :: r, st2)
           end) kv st in
      (JObj kv', st')
  | JArr l =>
      let (l', st') :=
        (fix go (l : list json) (st : nst) {struct l} : list json * nst :=
           match l with
           | [] => ([], st)
           | x :: l' => let (x', st1) := norm x st in let (r, st2) := go l' st1 in (x' :: r, st2)
           end) l st in
      (JArr l', st')
  | _ => (j, st)
  end.

Definition show_archive (a : archive) : pstr :=
  let (j, st) := norm (a_schema a) ([], []) in
  let names := map (fun n => match index_pstr n (snd st) 0%N with Some i => member_alias i n | None => s "orphan" ++ suffix n end)
                   (map fst (a_members a)) in
  render_json j ++ 124%N :: join [44%N] (sort_texts names).

(* ---------- one correspondence case ---------- *)
Record ccase := { cc_denv : denv; cc_base : Z; cc_facts : cfacts; cc_val : pval }.

Definition run_dump (c : ccase) : pstr :=
  show_res show_archive (dumps_model (cc_denv c) (cc_base c) (cc_val c)).

Definition run_load (reg : registry) (cur : Z) (c : ccase) : pstr :=
  match dumps_model (cc_denv c) (cc_base c) (cc_val c) with
  | Raise EDomain => s "DOMAIN"
  | Raise e => s "dump-err:" ++ show_err e
  | Ok a => show_res show_val (loads_model (cenv_of reg cur (cc_facts c) a) (a_schema a))
  end.

(* Corr.mismatches with the model's text cut to a window around the first difference *)
Fixpoint first_diff (a b : pstr) (n : nat) : nat :=
  match a, b with
  | x :: a', y :: b' => if N.eqb x y then first_diff a' b' (S n) else n
  | _, _ => n
  end.
Fixpoint mismatches_win_from {A} (run : A -> pstr) (i : N) (cases : list (A * pstr)) : list N :=
  match cases with
  | [] => []
  | (a, expected) :: cs =>
      let got := run a in
      if pstr_eqb got expected then mismatches_win_from run (i + 1)%N cs
      else let d := first_diff got expected 0 in
           let g := firstn 300 (skipn (d - 60) got) in
           i :: N.of_nat (length g) :: g ++ mismatches_win_from run (i + 1)%N cs
  end.
Definition mismatches_win {A} (run : A -> pstr) (cases : list (A * pstr)) : list N :=
  mismatches_win_from run 0%N cases.
