(* Termination of the walks over the node GRAPH (C19): get_unsafe_set (unsafe_g), walk_tree (walk) and
   construct (ctrace) never return the fuel artefact, for structural reasons.

   The argument is the implementation's own: between two pushes onto the path (the _computing_unsafe_set
   guard / the twice-unrolled cycle / the construct guard) the recursion only descends structurally; a Ref
   jumps to a node found by find_id, which carries an id; a node with an id that may still recurse pushes
   it.  Measure: lexicographic on (ids of root that may still be pushed, height of the current node). *)
From Skv Require Import PyStrFacts Node GetTree Unsafe Walk WalkFacts Construct NodeInd Fuel TreeIds GraphAudit.
From Coq Require Import Lia.
Local Open Scope nat_scope.

(* ---- height of a node tree: Refs and leaves are 0, a Node is one more than its highest child ---- *)
Fixpoint height (n : node) : nat :=
  match n with
  | Node _ subs => S (fold_right (fun x acc => Nat.max (height x) acc) O subs)
  | _ => O
  end.

Lemma height_child h subs x : In x subs -> height x < height (Node h subs).
Proof.
  cbn [height]. induction subs as [|y subs IH]; intros Hin; [contradiction|].
  cbn [fold_right]. destruct Hin as [->|Hin]; [lia | specialize (IH Hin); lia].
Qed.

Lemma height_sub n r : sub n r -> height n <= height r.
Proof.
  intros H. induction H as [|h subs x Hx Hs IH]; [lia|].
  pose proof (height_child h subs x Hx). lia.
Qed.

(* ---- ids of subtrees, what find_id returns ---- *)
Lemma sub_ids_incl n r : sub n r -> forall i, In i (ids n) -> In i (ids r).
Proof.
  intros H. induction H as [|h subs y Hy Hs IH]; intros i Hi; [exact Hi|].
  cbn [ids]. apply in_or_app. right. apply in_flat_map. exists y. split; [exact Hy | apply IH; exact Hi].
Qed.

Lemma node_id_in h subs r i : sub (Node h subs) r -> h_id h = Some i -> In i (ids r).
Proof.
  intros Hs Hi. eapply sub_ids_incl; [exact Hs|]. cbn [ids]. apply in_or_app. left.
  unfold own_ids. rewrite Hi. left. reflexivity.
Qed.

Lemma find_id_node id : forall n t, find_id id n = Some t -> exists h subs, t = Node h subs /\ h_id h = Some id.
Proof.
  induction n as [hd subs IH|sl i|sl l] using node_ind'; intros t H; cbn [find_id] in H; try discriminate H.
  assert (B : fold_right (fun x acc => match find_id id x with Some r => Some r | None => acc end) None subs = Some t ->
              exists h subs, t = Node h subs /\ h_id h = Some id).
  { intros Hf. destruct (fold_find _ _ _ Hf) as [x [Hx Fx]]. rewrite Forall_forall in IH. eapply IH; eauto. }
  destruct (h_id hd) as [i|] eqn:Hi.
  - destruct (hkey_eqb i id) eqn:Eq; [|apply B; exact H].
    injection H as <-. apply hkey_eqb_eq in Eq. subst. eauto.
  - apply B; exact H.
Qed.

Lemma hkey_eqb_refl i : hkey_eqb i i = true.
Proof. apply hkey_eqb_eq. reflexivity. Qed.

(* ---- the first component of the measure for the guarded walks (audit, construct):
        how many ids of root are not on the path yet ---- *)
Definition free (root : node) (path : list hkey) : nat :=
  length (filter (fun i => negb (memo_mem i path)) (ids root)).

Lemma filter_len_le {A} (p q : A -> bool) l :
  (forall y, In y l -> p y = true -> q y = true) -> length (filter p l) <= length (filter q l).
Proof.
  induction l as [|y l IH]; intros H; [apply le_n|]. cbn [filter].
  assert (IH' : length (filter p l) <= length (filter q l)) by (apply IH; intros; apply H; [right|]; assumption).
  destruct (p y) eqn:P.
  - rewrite (H y (or_introl eq_refl) P). cbn [length]. lia.
  - destruct (q y); cbn [length]; lia.
Qed.

Lemma filter_len_lt {A} (p q : A -> bool) l x :
  (forall y, In y l -> p y = true -> q y = true) -> In x l -> p x = false -> q x = true ->
  length (filter p l) < length (filter q l).
Proof.
  induction l as [|y l IH]; intros H Hin Px Qx; [contradiction|]. cbn [filter].
  assert (LE : length (filter p l) <= length (filter q l)) by (apply filter_len_le; intros; apply H; [right|]; assumption).
  destruct Hin as [->|Hin].
  - rewrite Px, Qx. cbn [length]. lia.
  - assert (LT : length (filter p l) < length (filter q l)) by (apply IH; auto; intros; apply H; [right|]; assumption).
    destruct (p y) eqn:P.
    + rewrite (H y (or_introl eq_refl) P). cbn [length]. lia.
    + destruct (q y); cbn [length]; lia.
Qed.

Lemma free_nil root : free root [] = length (ids root).
Proof.
  unfold free. induction (ids root) as [|i l IH]; [reflexivity|]. simpl. f_equal. exact IH.
Qed.

Lemma free_cons_le root i path : free root (i :: path) <= free root path.
Proof.
  unfold free. apply filter_len_le. intros y _. cbn [memo_mem]. destruct (hkey_eqb y i); cbn [orb negb]; [discriminate | auto].
Qed.

Lemma free_cons_lt root i path :
  In i (ids root) -> memo_mem i path = false -> free root (i :: path) < free root path.
Proof.
  intros Hin Hm. unfold free. apply filter_len_lt with (x := i).
  - intros y _. cbn [memo_mem]. destruct (hkey_eqb y i); cbn [orb negb]; [discriminate | auto].
  - exact Hin.
  - cbn [memo_mem]. rewrite hkey_eqb_refl. reflexivity.
  - rewrite Hm. reflexivity.
Qed.

Lemma free_push_le root h path : free root (push_path h path) <= free root path.
Proof. unfold push_path. destruct (h_id h); [apply free_cons_le | apply le_n]. Qed.

(* ---- the first component for walk_tree, which has no guard: the model unrolls a cycle twice,
        so every id of root may be pushed twice ---- *)
Definition slack (path : list hkey) (i : hkey) : nat := 2 - count_path i path.
Fixpoint nsum {A} (f : A -> nat) (l : list A) : nat :=
  match l with [] => 0 | x :: l' => f x + nsum f l' end.
Definition free2 (root : node) (path : list hkey) : nat := nsum (slack path) (ids root).

Lemma sum_map_le {A} (f g : A -> nat) l :
  (forall y, In y l -> f y <= g y) -> nsum f l <= nsum g l.
Proof.
  induction l as [|y l IH]; intros H; [apply le_n|]. cbn [nsum].
  pose proof (H y (or_introl eq_refl)). assert (nsum f l <= nsum g l) by (apply IH; intros; apply H; right; assumption). lia.
Qed.

Lemma sum_map_lt {A} (f g : A -> nat) l x :
  (forall y, In y l -> f y <= g y) -> In x l -> f x < g x -> nsum f l < nsum g l.
Proof.
  induction l as [|y l IH]; intros H Hin Hx; [contradiction|]. cbn [nsum].
  pose proof (H y (or_introl eq_refl)) as Hy.
  assert (LE : nsum f l <= nsum g l) by (apply sum_map_le; intros; apply H; right; assumption).
  destruct Hin as [->|Hin]; [lia|].
  assert (LT : nsum f l < nsum g l) by (apply IH; auto; intros; apply H; right; assumption). lia.
Qed.

Lemma free2_nil root : free2 root [] = 2 * length (ids root).
Proof.
  unfold free2. induction (ids root) as [|i l IH]; [reflexivity|]. cbn [nsum length]. rewrite IH.
  unfold slack. cbn [count_path]. lia.
Qed.

Lemma free2_cons_le root i path : free2 root (i :: path) <= free2 root path.
Proof. unfold free2. apply sum_map_le. intros y _. unfold slack. cbn [count_path]. lia. Qed.

Lemma free2_cons_lt root i path :
  In i (ids root) -> count_path i path < 2 -> free2 root (i :: path) < free2 root path.
Proof.
  intros Hin Hc. unfold free2. apply sum_map_lt with (x := i).
  - intros y _. unfold slack. cbn [count_path]. lia.
  - exact Hin.
  - unfold slack. cbn [count_path]. rewrite hkey_eqb_refl. lia.
Qed.

Lemma free2_push_le root h path : free2 root (push_path h path) <= free2 root path.
Proof. unfold push_path. destruct (h_id h); [apply free2_cons_le | apply le_n]. Qed.

Lemma free2_push_lt root h path i :
  h_id h = Some i -> In i (ids root) -> twice_on_path h path = false ->
  free2 root (push_path h path) < free2 root path.
Proof.
  intros Hi Hin Tw. unfold push_path, twice_on_path in *. rewrite Hi in *. apply free2_cons_lt; [exact Hin|].
  destruct (count_path i path) as [|[|c]]; [lia | lia | discriminate Tw].
Qed.

(* ---- arithmetic of the lexicographic measure  a * (H + 1) + height + 2 ---- *)
Lemma bound_step a a' W hx hn fuel :
  a' <= a -> hx < hn -> a * W + hn + 2 <= S fuel -> a' * W + hx + 2 <= fuel.
Proof. intros Ha Hh Hb. assert (a' * W <= a * W) by (apply Nat.mul_le_mono_r; exact Ha). lia. Qed.

(* a Ref (height 0) jumps to a node of height <= H that pushes its id: two units of fuel are spent,
   one id is no longer free *)
Lemma bound_jump a a' H hx ht hn fuel :
  a' < a -> hx < ht -> ht <= H -> a * S H + hn + 2 <= S (S fuel) -> a' * S H + hx + 2 <= fuel.
Proof.
  intros Ha Hh Ht Hb. assert (M : S a' * S H <= a * S H) by (apply Nat.mul_le_mono_r; lia).
  rewrite Nat.mul_succ_l in M. lia.
Qed.

(* ---- the pieces that never recurse ---- *)
Lemma jqual_nofuel m c : nofuel (jqual m c).
Proof. unfold jqual. destruct m; try (apply nofuel_raise; discriminate). destruct c; try (apply nofuel_raise; discriminate). apply nofuel_ok. Qed.

Ltac nf :=
  repeat first
    [ apply nofuel_ok
    | apply nofuel_raise; discriminate
    | apply jindex_nofuel
    | apply jqual_nofuel
    | apply bind_nofuel; [|intros ? _]
    | match goal with
      | |- nofuel (match ?x with _ => _ end) => destruct x
      | |- nofuel (if ?b then _ else _) => destruct b
      end ].

Lemma node_name_nofuel h : nofuel (node_name h).
Proof. apply jqual_nofuel. Qed.

Lemma self_safe_nofuel E T h : nofuel (self_safe E T h).
Proof. unfold self_safe. destruct (kind_eqb (h_kind h) KJson); [apply nofuel_ok|]. apply bind_nofuel; [apply node_name_nofuel|]. intros; apply nofuel_ok. Qed.

Lemma own_unsafe_nofuel E T h : nofuel (own_unsafe E T h).
Proof.
  unfold own_unsafe. apply bind_nofuel; [apply self_safe_nofuel|]. intros [|] _; [apply nofuel_ok|].
  apply bind_nofuel; [apply node_name_nofuel|]. intros; apply nofuel_ok.
Qed.

Lemma function_name_nofuel h subs : nofuel (function_name h subs).
Proof. unfold function_name. nf. Qed.

Lemma fn_unsafe_nofuel E T h subs : nofuel (fn_unsafe E T h subs).
Proof. unfold fn_unsafe. apply bind_nofuel; [apply function_name_nofuel|]. intros fn _. destruct (mem fn (node_trusted E T h)); apply nofuel_ok. Qed.

Lemma leaf_unsafe_nofuel l : nofuel (leaf_unsafe l).
Proof. unfold leaf_unsafe. nf. Qed.

Lemma node_format_nofuel h : nofuel (node_format h).
Proof. unfold node_format. nf. Qed.

Lemma format_of_nofuel h subs : nofuel (format_of h subs).
Proof. unfold format_of. destruct (h_kind h); try apply node_format_nofuel. apply function_name_nofuel. Qed.

Lemma self_safe_of_nofuel E T h subs : nofuel (self_safe_of E T h subs).
Proof.
  unfold self_safe_of. destruct (h_kind h); try apply self_safe_nofuel.
  apply bind_nofuel; [apply function_name_nofuel|]. intros; apply nofuel_ok.
Qed.

Lemma concat_res_nofuel {A B} (f : A -> res (list B)) l :
  (forall x, In x l -> nofuel (f x)) -> nofuel (concat_res (map f l)).
Proof.
  induction l as [|x l IH]; intros H; cbn [map concat_res]; [apply nofuel_ok|].
  apply bind_nofuel; [apply H; left; reflexivity|]. intros a _.
  apply bind_nofuel; [apply IH; intros; apply H; right; assumption|]. intros; apply nofuel_ok.
Qed.

(* ================= get_unsafe_set on the graph ================= *)
Section AuditTerm.
  Variable E : env.
  Variable T : trust.
  Variable root : node.

  (* (ids of root not on the path) * (height root + 1) + height n + 2 *)
  Definition unsafe_bound (path : list hkey) (n : node) : nat :=
    free root path * S (height root) + height n + 2.

  Theorem unsafe_g_nofuel : forall fuel path n,
    sub n root -> unsafe_bound path n <= fuel -> nofuel (unsafe_g E T root fuel path n).
  Proof.
    induction fuel as [fuel IH] using lt_wf_ind. intros path n Hs Hb. unfold unsafe_bound in Hb.
    destruct fuel as [|fuel]; [lia|].
    cbn [unsafe_g]. destruct n as [h subs|sl id|sl l].
    - destruct (ukind_of (h_kind h)); [apply nofuel_ok | apply own_unsafe_nofuel | apply fn_unsafe_nofuel |].
      destruct (on_path h path); [apply nofuel_ok|].
      apply bind_nofuel; [apply own_unsafe_nofuel|]. intros own _.
      apply bind_nofuel; [|intros; apply nofuel_ok].
      apply concat_res_nofuel. intros x Hx. apply IH; [lia | eapply sub_child; eauto |].
      unfold unsafe_bound. eapply bound_step; [apply free_push_le | apply (height_child h subs x Hx) | exact Hb].
    - destruct (find_id id root) as [t|] eqn:F; [|apply nofuel_raise; discriminate].
      destruct (find_id_node _ _ _ F) as [ht [ts [-> Hid]]]. pose proof (find_id_sub _ _ _ F) as Hst.
      destruct fuel as [|fuel]; [lia|].
      cbn [unsafe_g].
      destruct (ukind_of (h_kind ht)); [apply nofuel_ok | apply own_unsafe_nofuel | apply fn_unsafe_nofuel |].
      destruct (on_path ht path) eqn:OP; [apply nofuel_ok|].
      apply bind_nofuel; [apply own_unsafe_nofuel|]. intros own _.
      apply bind_nofuel; [|intros; apply nofuel_ok].
      apply concat_res_nofuel. intros x Hx. apply IH; [lia | eapply sub_child; eauto |].
      unfold unsafe_bound, push_path, on_path in *. rewrite Hid in *.
      eapply bound_jump; [apply free_cons_lt; [eapply node_id_in; eauto | exact OP]
                         | apply (height_child ht ts x Hx) | apply height_sub; exact Hst | exact Hb].
    - apply leaf_unsafe_nofuel.
  Qed.

  (* the fixed fuel of get_unsafe_set() called on node n with an empty call stack *)
  Theorem unsafe_nofuel n :
    sub n root -> length (ids root) * S (height root) + height n + 2 <= unsafe_fuel ->
    nofuel (unsafe E T root n).
  Proof.
    intros Hs Hb. unfold unsafe. apply unsafe_g_nofuel; [exact Hs|]. unfold unsafe_bound. rewrite free_nil. exact Hb.
  Qed.
End AuditTerm.

(* size condition under which the fixed audit fuel is enough for every node of the tree *)
Definition audit_fits (t : node) : Prop :=
  length (ids t) * S (height t) + height t + 2 <= unsafe_fuel.

(* the rounder sufficient condition *)
Lemma audit_fits_of_product t : S (length (ids t)) * (height t + 2) <= unsafe_fuel -> audit_fits t.
Proof. unfold audit_fits. intros H. rewrite Nat.mul_succ_l in H. rewrite Nat.mul_succ_r. lia. Qed.

Theorem unsafe_nofuel_sub E T root n : audit_fits root -> sub n root -> nofuel (unsafe E T root n).
Proof.
  intros Hf Hs. apply unsafe_nofuel; [exact Hs|]. unfold audit_fits in Hf. pose proof (height_sub _ _ Hs). lia.
Qed.

Theorem untrusted_of_nofuel E T t : audit_fits t -> nofuel (untrusted_of E T t).
Proof.
  intros Hf. unfold untrusted_of. apply bind_nofuel; [apply unsafe_nofuel_sub; [exact Hf | apply sub_refl]|].
  intros; apply nofuel_ok.
Qed.

Theorem get_untrusted_types_nofuel E schema t m :
  root_tree E schema = Ok (t, m) -> audit_fits t -> nofuel (get_untrusted_types E schema).
Proof.
  intros RT Hf. unfold get_untrusted_types. rewrite RT. cbn [bind]. apply untrusted_of_nofuel. exact Hf.
Qed.

Theorem load_audit_nofuel E schema ta t m :
  root_tree E schema = Ok (t, m) -> audit_fits t -> nofuel (load_audit E schema ta).
Proof.
  intros RT Hf. unfold load_audit. destruct ta as [|T]; [apply nofuel_raise; discriminate|].
  rewrite RT. cbn [bind]. apply bind_nofuel; [apply untrusted_of_nofuel; exact Hf|].
  intros [|x u] _; [apply nofuel_ok | apply nofuel_raise; discriminate].
Qed.

(* ================= walk_tree ================= *)
Definition nofuel_s (st : stream) : Prop := snd st <> Some EFuel.

Lemma s_ok_nofuel rows : nofuel_s (s_ok rows).
Proof. unfold nofuel_s, s_ok. cbn [snd]. discriminate. Qed.
Lemma s_err_nofuel e : e <> EFuel -> nofuel_s (s_err e).
Proof. unfold nofuel_s, s_err. cbn [snd]. intros H X. injection X as X. contradiction. Qed.
Lemma s_cons_nofuel r st : nofuel_s st -> nofuel_s (s_cons r st).
Proof. unfold nofuel_s, s_cons. cbn [snd]. auto. Qed.
Lemma s_app_nofuel a b : nofuel_s a -> nofuel_s b -> nofuel_s (s_app a b).
Proof. unfold nofuel_s, s_app. intros Ha Hb. destruct (snd a) eqn:Sa; [rewrite Sa; exact Ha | cbn [snd]; exact Hb]. Qed.
Lemma s_concat_nofuel {A} (f : A -> stream) l : (forall x, In x l -> nofuel_s (f x)) -> nofuel_s (s_concat f l).
Proof.
  unfold s_concat. induction l as [|x l IH]; intros H; cbn [fold_right]; [apply s_ok_nofuel|].
  apply s_app_nofuel; [apply H; left; reflexivity | apply IH; intros; apply H; right; assumption].
Qed.
Lemma s_lift_nofuel {A} (r : res A) (k : A -> stream) :
  nofuel r -> (forall a, nofuel_s (k a)) -> nofuel_s (s_lift r k).
Proof.
  intros Hr Hk. unfold s_lift. destruct r as [a|e]; [apply Hk|]. apply s_err_nofuel. intros ->. apply Hr. reflexivity.
Qed.

Lemma walk_raw_nofuel : forall j, nofuel_s (walk_raw j).
Proof.
  fix IH 1. intros j. destruct j as [| b | z | t | t | l | kv]; cbn [walk_raw];
    try apply s_ok_nofuel; try (apply s_err_nofuel; discriminate).
  - induction l as [|x l IHl]; [apply s_ok_nofuel|]. cbn [fold_right]. apply s_app_nofuel; [apply IH | exact IHl].
  - induction kv as [|[k v] kv IHl]; [apply s_ok_nofuel|]. cbn [fold_right snd]. apply s_app_nofuel; [apply IH | exact IHl].
Qed.

Section WalkTerm.
  Variable E : env.
  Variable T : trust.
  Variable skipped : list pstr.
  Variable root : node.
  (* the audits walk_tree asks for (is_safe of every row, of a DictNode's key_types) do not run out of fuel *)
  Hypothesis HU : forall x, sub x root -> nofuel (unsafe E T root x).

  (* one Node: fine as soon as the children are, under the pushed path *)
  Lemma walk_node_nofuel fuel path name level last h subs :
    sub (Node h subs) root ->
    (twice_on_path h path = false -> forall x name' level' last', In x subs ->
       nofuel_s (walk E T skipped root fuel (push_path h path) name' level' last' x)) ->
    nofuel_s (walk E T skipped root (S fuel) path name level last (Node h subs)).
  Proof.
    intros Hs Hrec. cbn [walk].
    apply s_lift_nofuel; [apply format_of_nofuel|]. intros val.
    apply s_lift_nofuel; [apply self_safe_of_nofuel|]. intros ss.
    apply s_lift_nofuel; [destruct (h_kind h); try apply nofuel_ok; apply HU; exact Hs|]. intros u.
    apply s_cons_nofuel.
    destruct (is_skipped E skipped h); [apply s_ok_nofuel|].
    assert (D : forall subs', (forall x, In x subs' -> In x subs) ->
      nofuel_s (if twice_on_path h path then s_err ERecursion else
                s_concat (fun p => walk E T skipped root fuel (push_path h path) (slot_key (node_slot (fst p))) (S level) (snd p) (fst p))
                         (combine subs' (last_flags subs')))).
    { intros subs' Hin. destruct (twice_on_path h path) eqn:TW; [apply s_err_nofuel; discriminate|].
      apply s_concat_nofuel. intros [x b] Hp. apply in_combine_l in Hp. cbn [fst snd]. apply Hrec; auto. }
    destruct (h_kind h); try (apply D; auto).
    (* DictNode: key_types may be hidden, after its own audit *)
    destruct subs as [|kt rest]; [apply s_err_nofuel; discriminate|].
    assert (Drest : forall x, In x rest -> In x (kt :: rest)) by (intros x Hx; right; exact Hx).
    assert (KT : forall kt', sub kt' root ->
      nofuel_s (match kt' with
                | Node hk _ =>
                    match h_kind hk with
                    | KList => s_lift (unsafe E T root kt')
                                 (fun uk => match uk with
                                            | [] => if twice_on_path h path then s_err ERecursion else
                                                    s_concat (fun p => walk E T skipped root fuel (push_path h path) (slot_key (node_slot (fst p))) (S level) (snd p) (fst p))
                                                             (combine rest (last_flags rest))
                                            | _ => if twice_on_path h path then s_err ERecursion else
                                                   s_concat (fun p => walk E T skipped root fuel (push_path h path) (slot_key (node_slot (fst p))) (S level) (snd p) (fst p))
                                                            (combine (kt :: rest) (last_flags (kt :: rest)))
                                            end)
                    | _ => if twice_on_path h path then s_err ERecursion else
                           s_concat (fun p => walk E T skipped root fuel (push_path h path) (slot_key (node_slot (fst p))) (S level) (snd p) (fst p))
                                    (combine (kt :: rest) (last_flags (kt :: rest)))
                    end
                | _ => if twice_on_path h path then s_err ERecursion else
                       s_concat (fun p => walk E T skipped root fuel (push_path h path) (slot_key (node_slot (fst p))) (S level) (snd p) (fst p))
                                (combine (kt :: rest) (last_flags (kt :: rest)))
                end)).
    { intros kt' Hk. destruct kt' as [hk ks|sl id|sl l]; try (apply D; auto).
      destruct (h_kind hk); try (apply D; auto).
      apply s_lift_nofuel; [apply HU; exact Hk|]. intros [|y uk]; apply D; auto. }
    apply KT.
    assert (Hkt : sub kt root) by (eapply sub_child; [exact Hs | left; reflexivity]).
    destruct kt as [hk ks|sl id|sl l]; try exact Hkt.
    destruct (find_id id root) as [t|] eqn:F; [eapply find_id_sub; exact F | exact Hkt].
  Qed.

  (* (2 - occurrences on the path, summed over the ids of root) * (height root + 1) + height n + 2 *)
  Definition walk_bound (path : list hkey) (n : node) : nat :=
    free2 root path * S (height root) + height n + 2.

  Theorem walk_nofuel : forall fuel path name level last n,
    sub n root -> walk_bound path n <= fuel ->
    nofuel_s (walk E T skipped root fuel path name level last n).
  Proof.
    induction fuel as [fuel IH] using lt_wf_ind. intros path name level last n Hs Hb. unfold walk_bound in Hb.
    destruct fuel as [|fuel]; [lia|].
    destruct n as [h subs|sl id|sl l].
    - apply walk_node_nofuel; [exact Hs|]. intros _ x name' level' last' Hx.
      apply IH; [lia | eapply sub_child; eauto |].
      unfold walk_bound. eapply bound_step; [apply free2_push_le | apply (height_child h subs x Hx) | exact Hb].
    - cbn [walk]. destruct (find_id id root) as [t|] eqn:F; [|apply s_err_nofuel; discriminate].
      destruct (find_id_node _ _ _ F) as [ht [ts [-> Hid]]]. pose proof (find_id_sub _ _ _ F) as Hst.
      destruct fuel as [|fuel]; [lia|].
      apply walk_node_nofuel; [exact Hst|]. intros TW x name' level' last' Hx.
      apply IH; [lia | eapply sub_child; eauto |].
      unfold walk_bound.
      eapply bound_jump; [eapply free2_push_lt; [exact Hid | eapply node_id_in; eauto | exact TW]
                         | apply (height_child ht ts x Hx) | apply height_sub; exact Hst | exact Hb].
    - cbn [walk]. destruct l; try apply s_ok_nofuel. apply walk_raw_nofuel.
  Qed.
End WalkTerm.

(* size condition for the fixed fuel of walk_tree (every id may be on the path twice) *)
Definition walk_fits (t : node) : Prop :=
  2 * length (ids t) * S (height t) + height t + 2 <= walk_fuel.

Lemma walk_fits_of_product t : S (2 * length (ids t)) * (height t + 2) <= walk_fuel -> walk_fits t.
Proof. unfold walk_fits. intros H. rewrite Nat.mul_succ_l in H. rewrite (Nat.mul_succ_r (2 * length (ids t))). lia. Qed.

Theorem walk_root_nofuel E T skipped t name level last :
  audit_fits t -> walk_fits t -> nofuel_s (walk E T skipped t walk_fuel [] name level last t).
Proof.
  intros Ha Hw. apply walk_nofuel; [intros x Hx; apply unsafe_nofuel_sub; assumption | apply sub_refl |].
  unfold walk_bound. rewrite free2_nil. exact Hw.
Qed.

Theorem visualize_stream_nofuel E skipped schema T t m :
  root_tree E schema = Ok (t, m) -> audit_fits t -> walk_fits t ->
  exists st, visualize_stream E skipped schema T = Ok st /\ snd st <> Some EFuel.
Proof.
  intros RT Ha Hw. unfold visualize_stream. rewrite RT. cbn [bind]. eexists. split; [reflexivity|].
  apply walk_root_nofuel; assumption.
Qed.

Theorem visualize_rows_nofuel E skipped schema T t m :
  root_tree E schema = Ok (t, m) -> audit_fits t -> walk_fits t ->
  nofuel (visualize_rows E skipped schema T).
Proof.
  intros RT Ha Hw. destruct (visualize_stream_nofuel E skipped schema T t m RT Ha Hw) as [st [VS N]].
  unfold visualize_rows. rewrite VS. cbn [bind]. destruct (snd st) as [e|]; [|apply nofuel_ok].
  apply nofuel_raise. intros ->. apply N. reflexivity.
Qed.

(* _traverse_tree adds only its own ValueError / StopIteration to what the generator raised (WalkFacts.traverse_raise) *)
Theorem visualize_nofuel E skipped schema T sh t m :
  root_tree E schema = Ok (t, m) -> audit_fits t -> walk_fits t ->
  nofuel (visualize E skipped schema T sh).
Proof.
  intros RT Ha Hw. destruct (visualize_stream_nofuel E skipped schema T t m RT Ha Hw) as [st [VS N]].
  unfold visualize. rewrite VS. cbn [bind]. unfold traverse_all.
  destruct (fst st) as [|r rs].
  - destruct (snd st) as [e|]; apply nofuel_raise; [intros ->; apply N; reflexivity | discriminate].
  - destruct (traverse sh (r_level r) None rs (snd st)) as [rest|e] eqn:Tr; cbn [bind]; [apply nofuel_ok|].
    apply nofuel_raise. intros ->. apply traverse_raise in Tr as [X|X]; [discriminate X | apply N; exact X].
Qed.

(* ================= construct ================= *)
Lemma then_nofuel a f : nofuel a -> (forall d, nofuel (f d)) -> nofuel (then_ a f).
Proof.
  intros Ha Hf. unfold then_. apply bind_nofuel; [exact Ha|]. intros [e1 d1] _.
  apply bind_nofuel; [apply Hf|]. intros [e2 d2] _. apply nofuel_ok.
Qed.
Lemma emit_nofuel h e d : nofuel (emit h e d).
Proof. apply nofuel_ok. Qed.
Lemma nothing_nofuel d : nofuel (nothing d).
Proof. apply nofuel_ok. Qed.

Lemma firstn_incl {A} (x : A) : forall n l, In x (firstn n l) -> In x l.
Proof. induction n as [|n IH]; intros [|y l] H; simpl in H; try contradiction. destruct H as [->|H]; [left; reflexivity | right; apply IH; exact H]. Qed.

Section BodyTerm.
  Variable subf : done -> node -> cres.

  Lemma seq_nodes_nofuel ns : forall d,
    (forall d x, In x ns -> nofuel (subf d x)) -> nofuel (seq_nodes subf ns d).
  Proof.
    induction ns as [|x ns IH]; intros d H; cbn [seq_nodes]; [apply nothing_nofuel|].
    apply then_nofuel; [apply H; left; reflexivity|]. intros d1. apply IH. intros; apply H; right; assumption.
  Qed.

  (* _construct of every kind only constructs children of its own node *)
  Lemma body_nofuel h subs d :
    (forall d x, In x subs -> nofuel (subf d x)) -> nofuel (body h subs subf d).
  Proof.
    intros H.
    assert (SEQ : forall ns d, (forall x, In x ns -> In x subs) -> nofuel (seq_nodes subf ns d)).
    { intros ns d0 Hin. apply seq_nodes_nofuel. intros; apply H; apply Hin; assumption. }
    unfold body. destruct (h_kind h); cbv beta iota zeta.
    all: repeat first
      [ apply nothing_nofuel
      | apply emit_nofuel
      | apply then_nofuel; [|intros ?]
      | apply SEQ; solve [auto | intros x Hx; simpl; auto]
      | apply H; solve [simpl; auto]
      | match goal with
        | |- nofuel (match ?x with _ => _ end) => destruct x eqn:?
        | |- nofuel (if ?b then _ else _) => destruct b
        end ].
    (* DictNode: the key_types node and a prefix of the values *)
    all: try (match goal with |- nofuel (_ subf ?ns ?d0) => change (nofuel (seq_nodes subf ns d0)) end;
              apply SEQ; intros x Hx; right; eapply firstn_incl; exact Hx).
    (* NdArrayNode (json): shape, then the cells -- both taken from rev subs *)
    all: try match goal with R : rev ?s = ?sh :: ?cells |- _ =>
           assert (IN : forall x, In x (sh :: cells) -> In x s) by (intros x Hx; apply in_rev; rewrite R; exact Hx) end.
    all: try (apply H; apply IN; left; reflexivity).
    all: try (apply SEQ; intros x Hx; apply IN; right; apply (proj2 (in_rev _ x)); exact Hx).
  Qed.
End BodyTerm.

Section ConstructTerm.
  Variable root : node.

  (* same measure as the audit: a node on the path raises RecursionError instead of recursing *)
  Theorem ctrace_nofuel : forall fuel path d n,
    sub n root -> unsafe_bound root path n <= fuel -> nofuel (ctrace root fuel path d n).
  Proof.
    induction fuel as [fuel IH] using lt_wf_ind. intros path d n Hs Hb. unfold unsafe_bound in Hb.
    destruct fuel as [|fuel]; [lia|].
    cbn [ctrace]. destruct n as [h subs|sl id|sl l].
    - assert (CH : forall p, free root p <= free root path -> forall d0 x, In x subs -> nofuel (ctrace root fuel p d0 x)).
      { intros p Hp d0 x Hx. apply IH; [lia | eapply sub_child; eauto |].
        unfold unsafe_bound. eapply bound_step; [exact Hp | apply (height_child h subs x Hx) | exact Hb]. }
      destruct (h_id h) as [i|].
      + destruct (memo_mem i d); [apply nothing_nofuel|].
        destruct (memo_mem i path); [apply nofuel_raise; discriminate|].
        apply bind_nofuel; [apply body_nofuel; apply CH; apply free_cons_le|]. intros [es d'] _. apply nofuel_ok.
      + apply body_nofuel. apply CH. apply le_n.
    - destruct (memo_mem id d); [apply nothing_nofuel|].
      destruct (find_id id root) as [t|] eqn:F; [|apply nofuel_raise; discriminate].
      destruct (find_id_node _ _ _ F) as [ht [ts [-> Hid]]]. pose proof (find_id_sub _ _ _ F) as Hst.
      destruct fuel as [|fuel]; [lia|].
      cbn [ctrace]. rewrite Hid.
      destruct (memo_mem id d); [apply nothing_nofuel|].
      destruct (memo_mem id path) eqn:OP; [apply nofuel_raise; discriminate|].
      apply bind_nofuel; [|intros [es d'] _; apply nofuel_ok].
      apply body_nofuel. intros d0 x Hx. apply IH; [lia | eapply sub_child; eauto |].
      unfold unsafe_bound.
      eapply bound_jump; [apply free_cons_lt; [eapply node_id_in; eauto | exact OP]
                         | apply (height_child ht ts x Hx) | apply height_sub; exact Hst | exact Hb].
    - apply nothing_nofuel.
  Qed.
End ConstructTerm.

(* construct_trace fixes its fuel at 3000 *)
Definition construct_fits (t : node) : Prop :=
  length (ids t) * S (height t) + height t + 2 <= 3000.

Theorem construct_trace_nofuel t : construct_fits t -> nofuel (construct_trace t).
Proof.
  intros Hf. unfold construct_trace. apply bind_nofuel; [|intros [es d] _; apply nofuel_ok].
  apply ctrace_nofuel; [apply sub_refl|]. unfold unsafe_bound. rewrite free_nil. exact Hf.
Qed.

(* ================= entry points on an arbitrary schema ================= *)
Lemma root_tree_nofuel E schema : jdepth schema < default_fuel -> nofuel (root_tree E schema).
Proof.
  intros Hd. unfold root_tree. apply bind_nofuel; [apply jindex_nofuel|]. intros p _. apply get_tree_nofuel. exact Hd.
Qed.

(* a schema nested less deeply than get_tree's fuel whose tree (if one is built) fits the audit fuel:
   the model's answer is a genuine outcome *)
Theorem get_untrusted_types_genuine E schema :
  jdepth schema < default_fuel ->
  (forall t m, root_tree E schema = Ok (t, m) -> audit_fits t) ->
  nofuel (get_untrusted_types E schema).
Proof.
  intros Hd Hf. destruct (root_tree E schema) as [[t m]|e] eqn:RT.
  - eapply get_untrusted_types_nofuel; [exact RT | eapply Hf; reflexivity].
  - pose proof (root_tree_nofuel E schema Hd) as N. unfold get_untrusted_types. rewrite RT in *. cbn [bind]. intros X. apply N. injection X as ->. reflexivity.
Qed.

Theorem load_audit_genuine E schema ta :
  jdepth schema < default_fuel ->
  (forall t m, root_tree E schema = Ok (t, m) -> audit_fits t) ->
  nofuel (load_audit E schema ta).
Proof.
  intros Hd Hf. destruct (root_tree E schema) as [[t m]|e] eqn:RT.
  - eapply load_audit_nofuel; [exact RT | eapply Hf; reflexivity].
  - pose proof (root_tree_nofuel E schema Hd) as N. unfold load_audit. destruct ta; [apply nofuel_raise; discriminate|].
    rewrite RT in *. cbn [bind]. intros X. apply N. injection X as ->. reflexivity.
Qed.

Theorem visualize_genuine E skipped schema T sh :
  jdepth schema < default_fuel ->
  (forall t m, root_tree E schema = Ok (t, m) -> audit_fits t /\ walk_fits t) ->
  nofuel (visualize E skipped schema T sh).
Proof.
  intros Hd Hf. destruct (root_tree E schema) as [[t m]|e] eqn:RT.
  - destruct (Hf t m eq_refl). eapply visualize_nofuel; eauto.
  - pose proof (root_tree_nofuel E schema Hd) as N. unfold visualize, visualize_stream. rewrite RT in *. cbn [bind].
    intros X. apply N. injection X as ->. reflexivity.
Qed.

(* ================= witnesses ================= *)
(* ids the Refs of a tree point to, in pre-order *)
Fixpoint refs (n : node) : list hkey :=
  match n with
  | Node _ subs => flat_map refs subs
  | Ref _ id => [id]
  | Leaf _ _ => []
  end.

Definition jlist (id : option Z) (content : list json) : json :=
  JObj ([(s "__class__", JStr (s "list")); (s "__module__", JStr (s "builtins")); (s "__loader__", JStr (s "ListNode"))]
        ++ (match id with Some i => [(s "__id__", JInt i)] | None => [] end) ++ [(s "content", JArr content)]).
Definition jref (i : Z) : json := JObj [(s "__id__", JInt i)].
Definition jroot (proto id : Z) (content : list json) : json :=
  JObj [(s "__class__", JStr (s "list")); (s "__module__", JStr (s "builtins")); (s "__loader__", JStr (s "ListNode"));
        (s "__id__", JInt id); (s "protocol", JInt proto); (s "content", JArr content)].

(* root = [a, a, root] with a = [a, []]: a shared id and two cycles (a list that contains itself) *)
Definition knot_json (proto : Z) : json :=
  jroot proto 1 [jlist (Some 2%Z) [jref 2; jlist None []]; jref 2; jref 1].

(* the tower: k blocks side by side under the root; block i is a list with id i on top of a chain of d id-less
   lists that ends in a reference to block i+1 (written earlier in the file, hence already memoised).  The audit
   of block 1 runs through all k blocks: recursion depth about k * (d + 2) for a schema nested 2 * d + 6 deep. *)
Fixpoint jchain (d : nat) (inner : json) : json :=
  match d with O => inner | S d' => jlist None [jchain d' inner] end.
Definition jblock (d k i : nat) : json :=
  jlist (Some (Z.of_nat i)) [jchain d (if Nat.ltb i k then jref (Z.of_nat (S i)) else jlist None [])].
Fixpoint jblocks (d k i : nat) : list json :=
  match i with O => [] | S i' => jblock d k i :: jblocks d k i' end.
Definition tower_json (proto : Z) (d k : nat) : json := jroot proto 1000 (jblocks d k k).

(* ================= the height of a built tree is bounded by the nesting depth of its schema ================= *)
Definition hmax (ns : list node) : nat := fold_right (fun x acc => Nat.max (height x) acc) O ns.

Lemma height_node h subs : height (Node h subs) = S (hmax subs).
Proof. reflexivity. Qed.
Lemma hmax_cons x ns : hmax (x :: ns) = Nat.max (height x) (hmax ns).
Proof. reflexivity. Qed.
Lemma hmax_app a b : hmax (a ++ b) = Nat.max (hmax a) (hmax b).
Proof. induction a as [|x a IH]; [reflexivity|]. cbn [app]. rewrite !hmax_cons, IH. lia. Qed.
Lemma hmax_or_empty name l ns : hmax (or_empty name l ns) = hmax ns.
Proof. destruct ns; reflexivity. Qed.

Lemma node_init_obj sl k tag extra b m j aux h m0 :
  node_init sl k tag extra b m j aux = Ok (h, m0) -> 1 <= jdepth j.
Proof.
  unfold node_init. destruct (jindex j (K "__class__")) as [cc|] eqn:C; cbn [bind]; [|intros X; discriminate X].
  intros _. apply jindex_depth in C. lia.
Qed.

Section Height.
  Variable E : env.
  Variable rec : list pstr -> slot -> memo -> json -> res (node * memo).
  Hypothesis Hrec : forall extra sl m j t m', rec extra sl m j = Ok (t, m') -> height t <= jdepth j.

  Lemma sub_list_height extra name b : forall js m ns m',
    sub_list rec extra name m js = Ok (ns, m') -> (forall v, In v js -> jdepth v <= b) -> hmax ns <= b.
  Proof.
    induction js as [|j js IH]; intros m ns m' H Hb; cbn [sub_list] in H.
    - injection H as <- _. apply Nat.le_0_l.
    - destruct (rec extra (SElem name) m j) as [[n m1]|] eqn:R; cbn [bind] in H; [|discriminate H].
      destruct (sub_list rec extra name m1 js) as [[ns' m2]|] eqn:S; cbn [bind] in H; [|discriminate H].
      injection H as <- _. rewrite hmax_cons. apply Hrec in R. pose proof (Hb j (or_introl eq_refl)).
      assert (hmax ns' <= b) by (eapply IH; [exact S | intros; apply Hb; right; assumption]). lia.
  Qed.

  Lemma sub_dict_height extra name b : forall kvs m ns m',
    sub_dict rec extra name m kvs = Ok (ns, m') -> (forall k v, In (k, v) kvs -> jdepth v <= b) -> hmax ns <= b.
  Proof.
    induction kvs as [|[k j] kvs IH]; intros m ns m' H Hb; cbn [sub_dict] in H.
    - injection H as <- _. apply Nat.le_0_l.
    - destruct (rec extra (SKey name k) m j) as [[n m1]|] eqn:R; cbn [bind] in H; [|discriminate H].
      destruct (sub_dict rec extra name m1 kvs) as [[ns' m2]|] eqn:S; cbn [bind] in H; [|discriminate H].
      injection H as <- _. rewrite hmax_cons. apply Hrec in R. pose proof (Hb k j (or_introl eq_refl)).
      assert (hmax ns' <= b) by (eapply IH; [exact S | intros; eapply Hb; right; eassumption]). lia.
  Qed.

  Lemma sub_list_iter_height extra name c items m ns m' :
    jiter c = Ok items -> sub_list rec extra name m items = Ok (ns, m') -> hmax ns <= Nat.pred (jdepth c).
  Proof.
    intros I S. eapply sub_list_height; [exact S|]. intros v Hv. destruct (jiter_depth _ _ I _ Hv); lia.
  Qed.

  Lemma sub_dict_items_height extra name c items m ns m' :
    jitems c = Ok items -> sub_dict rec extra name m items = Ok (ns, m') -> hmax ns <= Nat.pred (jdepth c).
  Proof.
    intros I S. eapply sub_dict_height; [exact S|]. intros k v Hv. pose proof (jitems_depth _ _ I _ _ Hv). lia.
  Qed.

  Lemma content_child_height extra j key slotname m n m' :
    content_child rec extra j key slotname m = Ok (n, m') -> height n + 2 <= jdepth j.
  Proof.
    unfold content_child. intros H.
    destruct (jindex j (K "content")) as [c|] eqn:C; cbn [bind] in H; [|discriminate H].
    destruct (jindex c key) as [v|] eqn:V; cbn [bind] in H; [|discriminate H].
    apply Hrec in H. apply jindex_depth in C. apply jindex_depth in V. lia.
  Qed.

  Ltac brk H :=
    repeat (cbn [bind] in H;
      match type of H with
      | bind ?r _ = Ok _ => let X := fresh "X" in destruct r eqn:X; cbn [bind] in H; [|discriminate H]
      | (let (_, _) := ?p in _) = Ok _ => destruct p
      | (match ?x with _ => _ end) = Ok _ => let X := fresh "X" in destruct x eqn:X; try discriminate H
      | (if ?b then _ else _) = Ok _ => let X := fresh "X" in destruct b eqn:X; try discriminate H
      end).

  Ltac facts :=
    repeat match goal with
    | I : jiter ?c = Ok ?items, X : sub_list rec _ _ _ ?items = Ok _ |- _ => apply (sub_list_iter_height _ _ _ _ _ _ _ I) in X
    | I : jitems ?c = Ok ?items, X : sub_dict rec _ _ _ ?items = Ok _ |- _ => apply (sub_dict_items_height _ _ _ _ _ _ _ I) in X
    | X : content_child rec _ _ _ _ _ = Ok _ |- _ => apply content_child_height in X
    | X : rec _ _ _ _ = Ok _ |- _ => apply Hrec in X
    | X : node_init _ _ _ _ _ _ _ _ = Ok _ |- _ => apply node_init_obj in X
    | X : jindex _ _ = Ok _ |- _ => apply jindex_depth in X
    | X : jget _ _ = Ok _ |- _ => apply jget_depth in X
    end.

  Lemma build_height sl extra tag k m j t m' :
    build E rec sl extra tag k m j = Ok (t, m') -> height t <= jdepth j.
  Proof.
    intros H. destruct k; unfold build in H; cbv beta iota zeta in H; brk H;
      try (injection H as <- <-); facts;
      rewrite height_node; rewrite ?hmax_app, ?hmax_cons, ?hmax_or_empty;
      cbn [hmax fold_right height] in *; lia.
  Qed.
End Height.

Theorem get_tree_height E proto : forall fuel extra sl m j t m',
  get_tree fuel E proto extra sl m j = Ok (t, m') -> height t <= jdepth j.
Proof.
  induction fuel as [|fuel IH]; intros extra sl m j t m' H; [discriminate H|].
  cbn [get_tree] in H.
  destruct (jget j (K "__id__")) as [sid|]; cbn [bind] in H; [|discriminate H].
  destruct (jhash sid) as [hk|]; cbn [bind] in H; [|discriminate H].
  destruct (memo_mem hk m); [injection H as <- _; apply Nat.le_0_l|].
  destruct (jindex j (K "__loader__")) as [loader|]; cbn [bind] in H; [|discriminate H].
  destruct (dispatch (e_reg E) (e_cur E) loader proto) as [[tag|]|]; cbn [bind] in H; try discriminate H.
  - destruct (kind_of_class tag) as [k|]; [|discriminate H].
    eapply build_height; [|exact H]. intros; eapply IH; eauto.
  - destruct (jindex j (K "__module__")); cbn [bind] in H; [|discriminate H].
    destruct (jindex j (K "__class__")); cbn [bind] in H; discriminate H.
Qed.

Corollary root_tree_height E schema t m : root_tree E schema = Ok (t, m) -> height t <= jdepth schema.
Proof.
  unfold root_tree. destruct (jindex schema (K "protocol")); cbn [bind]; [|intros X; discriminate X].
  apply get_tree_height.
Qed.

(* the size conditions read off the schema's nesting depth and the number of memoised ids *)
Lemma fits_mono a h d c : h <= d -> a * S d + d + 2 <= c -> a * S h + h + 2 <= c.
Proof. intros Hh Hc. assert (a * S h <= a * S d) by (apply Nat.mul_le_mono_l; lia). lia. Qed.

Theorem audit_fits_of_depth E schema t m :
  root_tree E schema = Ok (t, m) ->
  length (ids t) * S (jdepth schema) + jdepth schema + 2 <= unsafe_fuel -> audit_fits t.
Proof. intros RT Hc. unfold audit_fits. eapply fits_mono; [eapply root_tree_height; exact RT | exact Hc]. Qed.

Theorem walk_fits_of_depth E schema t m :
  root_tree E schema = Ok (t, m) ->
  2 * length (ids t) * S (jdepth schema) + jdepth schema + 2 <= walk_fuel -> walk_fits t.
Proof. intros RT Hc. unfold walk_fits. eapply fits_mono; [eapply root_tree_height; exact RT | exact Hc]. Qed.

(* ================= every memoised id of a built tree is the hash of an "__id__" value of the schema ================= *)
Definition own_jid (kv : list (pstr * json)) : list hkey :=
  match dget (K "__id__") kv with
  | Some sid => if jtruthy sid then match jhash sid with Ok h => [h] | Raise _ => [] end else []
  | None => []
  end.
(* hashes of the truthy, hashable "__id__" values anywhere in a JSON value (with repetitions) *)
Fixpoint jids (j : json) : list hkey :=
  match j with
  | JObj kv => own_jid kv ++ flat_map (fun p => jids (snd p)) kv
  | JArr l => flat_map jids l
  | _ => []
  end.

Lemma dget_In' {A} k (d : list (pstr * A)) v : dget k d = Some v -> exists k', In (k', v) d.
Proof.
  induction d as [|[k0 v0] d IH]; cbn [dget]; [discriminate|].
  destruct (pstr_eqb k k0).
  - intros H; injection H as ->. exists k0. left. reflexivity.
  - intros H. destruct (IH H) as [k' Hk]. exists k'. right. exact Hk.
Qed.

Lemma jids_member kv k v : In (k, v) kv -> incl (jids v) (jids (JObj kv)).
Proof.
  intros Hin i Hi. cbn [jids]. apply in_or_app. right. apply in_flat_map. exists (k, v). split; [exact Hin | exact Hi].
Qed.
Lemma jindex_ids j k v : jindex j k = Ok v -> incl (jids v) (jids j).
Proof.
  destruct j; cbn [jindex]; try discriminate. destruct (dget k kv) as [v'|] eqn:D; [|discriminate].
  intros X; injection X as ->. destruct (dget_In' _ _ _ D) as [k' Hk]. eapply jids_member; exact Hk.
Qed.
Lemma jget_ids j k v : jget j k = Ok v -> incl (jids v) (jids j).
Proof.
  destruct j; cbn [jget]; try discriminate. destruct (dget k kv) as [v'|] eqn:D.
  - intros X; injection X as ->. destruct (dget_In' _ _ _ D) as [k' Hk]. eapply jids_member; exact Hk.
  - intros X; injection X as <-. apply incl_nil_l.
Qed.
Lemma jitems_ids j kv : jitems j = Ok kv -> forall k v, In (k, v) kv -> incl (jids v) (jids j).
Proof. destruct j; cbn [jitems]; try discriminate. intros X; injection X as ->. intros k v. apply jids_member. Qed.
Lemma jiter_ids j l : jiter j = Ok l -> forall v, In v l -> incl (jids v) (jids j).
Proof.
  destruct j; cbn [jiter]; try discriminate; intros X; injection X as <-; intros v Hin.
  - apply in_map_iff in Hin as [c [<- _]]. apply incl_nil_l.
  - intros i Hi. cbn [jids]. apply in_flat_map. exists v. auto.
  - apply in_map_iff in Hin as [p [<- _]]. apply incl_nil_l.
Qed.

Lemma node_init_ids sl k tag extra b m j aux h m0 :
  node_init sl k tag extra b m j aux = Ok (h, m0) -> incl (own_ids h) (jids j).
Proof.
  unfold node_init. destruct (jindex j (K "__class__")) as [cc|] eqn:C; cbn [bind]; [|intros X; discriminate X].
  destruct (jindex j (K "__module__")) as [cm|]; cbn [bind]; [|intros X; discriminate X].
  destruct j as [| | | | | |kv]; try discriminate C. cbn [jget].
  assert (G : forall sid, (match dget (K "__id__") kv with Some v => Ok v | None => Ok JNull end) = Ok sid ->
                          jtruthy sid = true -> forall hk, jhash sid = Ok hk -> In hk (own_jid kv)).
  { intros sid G Tr hk Hk. unfold own_jid. destruct (dget (K "__id__") kv) as [v|].
    - injection G as ->. rewrite Tr, Hk. left. reflexivity.
    - injection G as <-. discriminate Tr. }
  destruct (match dget (K "__id__") kv with Some v => Ok v | None => Ok JNull end) as [sid|] eqn:S; cbn [bind]; [|intros X; discriminate X].
  destruct (jtruthy sid) eqn:Tr; cbn [andb].
  - destruct b.
    + destruct (jhash sid) as [hk|] eqn:Hk; cbn [bind]; [|intros X; discriminate X].
      intros X; injection X as <- _. unfold own_ids. cbn [h_id]. intros i [<-|[]]. cbn [jids]. apply in_or_app. left. eapply G; eauto.
    + intros X; injection X as <- _. apply incl_nil_l.
  - intros X; injection X as <- _. apply incl_nil_l.
Qed.

Lemma flat_map_ids_or_empty name l ns : flat_map ids (or_empty name l ns) = flat_map ids ns.
Proof. destruct ns; reflexivity. Qed.

Section IdsOfSchema.
  Variable E : env.
  Variable rec : list pstr -> slot -> memo -> json -> res (node * memo).
  Hypothesis Hrec : forall extra sl m j t m', rec extra sl m j = Ok (t, m') -> incl (ids t) (jids j).

  Lemma sub_list_jids extra name J : forall js m ns m',
    sub_list rec extra name m js = Ok (ns, m') -> (forall v, In v js -> incl (jids v) J) -> incl (flat_map ids ns) J.
  Proof.
    induction js as [|j js IH]; intros m ns m' H Hb; cbn [sub_list] in H.
    - injection H as <- _. apply incl_nil_l.
    - destruct (rec extra (SElem name) m j) as [[n m1]|] eqn:R; cbn [bind] in H; [|discriminate H].
      destruct (sub_list rec extra name m1 js) as [[ns' m2]|] eqn:S; cbn [bind] in H; [|discriminate H].
      injection H as <- _. cbn [flat_map]. apply incl_app.
      + eapply incl_tran; [eapply Hrec; exact R | apply Hb; left; reflexivity].
      + eapply IH; [exact S | intros; apply Hb; right; assumption].
  Qed.

  Lemma sub_dict_jids extra name J : forall kvs m ns m',
    sub_dict rec extra name m kvs = Ok (ns, m') -> (forall k v, In (k, v) kvs -> incl (jids v) J) -> incl (flat_map ids ns) J.
  Proof.
    induction kvs as [|[k j] kvs IH]; intros m ns m' H Hb; cbn [sub_dict] in H.
    - injection H as <- _. apply incl_nil_l.
    - destruct (rec extra (SKey name k) m j) as [[n m1]|] eqn:R; cbn [bind] in H; [|discriminate H].
      destruct (sub_dict rec extra name m1 kvs) as [[ns' m2]|] eqn:S; cbn [bind] in H; [|discriminate H].
      injection H as <- _. cbn [flat_map]. apply incl_app.
      + eapply incl_tran; [eapply Hrec; exact R | eapply Hb; left; reflexivity].
      + eapply IH; [exact S | intros; eapply Hb; right; eassumption].
  Qed.

  Lemma sub_list_iter_jids extra name c items m ns m' :
    jiter c = Ok items -> sub_list rec extra name m items = Ok (ns, m') -> incl (flat_map ids ns) (jids c).
  Proof. intros I S. eapply sub_list_jids; [exact S|]. apply (jiter_ids _ _ I). Qed.

  Lemma sub_dict_items_jids extra name c items m ns m' :
    jitems c = Ok items -> sub_dict rec extra name m items = Ok (ns, m') -> incl (flat_map ids ns) (jids c).
  Proof. intros I S. eapply sub_dict_jids; [exact S|]. apply (jitems_ids _ _ I). Qed.

  Lemma content_child_jids extra j key slotname m n m' :
    content_child rec extra j key slotname m = Ok (n, m') -> incl (ids n) (jids j).
  Proof.
    unfold content_child. intros H.
    destruct (jindex j (K "content")) as [c|] eqn:C; cbn [bind] in H; [|discriminate H].
    destruct (jindex c key) as [v|] eqn:V; cbn [bind] in H; [|discriminate H].
    apply Hrec in H. apply jindex_ids in C. apply jindex_ids in V.
    eapply incl_tran; [exact H|]. eapply incl_tran; [exact V | exact C].
  Qed.

  Ltac brk H :=
    repeat (cbn [bind] in H;
      match type of H with
      | bind ?r _ = Ok _ => let X := fresh "X" in destruct r eqn:X; cbn [bind] in H; [|discriminate H]
      | (let (_, _) := ?p in _) = Ok _ => destruct p
      | (match ?x with _ => _ end) = Ok _ => let X := fresh "X" in destruct x eqn:X; try discriminate H
      | (if ?b then _ else _) = Ok _ => let X := fresh "X" in destruct b eqn:X; try discriminate H
      end).

  Ltac facts :=
    repeat match goal with
    | I : jiter ?c = Ok ?items, X : sub_list rec _ _ _ ?items = Ok _ |- _ => apply (sub_list_iter_jids _ _ _ _ _ _ _ I) in X
    | I : jitems ?c = Ok ?items, X : sub_dict rec _ _ _ ?items = Ok _ |- _ => apply (sub_dict_items_jids _ _ _ _ _ _ _ I) in X
    | X : content_child rec _ _ _ _ _ = Ok _ |- _ => apply content_child_jids in X
    | X : rec _ _ _ _ = Ok _ |- _ => apply Hrec in X
    | X : node_init _ _ _ _ _ _ _ _ = Ok _ |- _ => apply node_init_ids in X
    | X : jindex _ _ = Ok _ |- _ => apply jindex_ids in X
    | X : jget _ _ = Ok _ |- _ => apply jget_ids in X
    end.

  Ltac chain := first [ eassumption | exact (incl_nil_l _) | eapply incl_tran; [eassumption | chain] ].

  Lemma build_jids sl extra tag k m j t m' :
    build E rec sl extra tag k m j = Ok (t, m') -> incl (ids t) (jids j).
  Proof.
    intros H. destruct k; unfold build in H; cbv beta iota zeta in H; brk H;
      try (injection H as <- <-); facts;
      rewrite ?ids_set_aux; cbn [ids flat_map]; rewrite ?flat_map_app, ?flat_map_ids_or_empty; cbn [ids flat_map];
      repeat apply incl_app; chain.
  Qed.
End IdsOfSchema.

Theorem get_tree_jids E proto : forall fuel extra sl m j t m',
  get_tree fuel E proto extra sl m j = Ok (t, m') -> incl (ids t) (jids j).
Proof.
  induction fuel as [|fuel IH]; intros extra sl m j t m' H; [discriminate H|].
  cbn [get_tree] in H.
  destruct (jget j (K "__id__")) as [sid|]; cbn [bind] in H; [|discriminate H].
  destruct (jhash sid) as [hk|]; cbn [bind] in H; [|discriminate H].
  destruct (memo_mem hk m); [injection H as <- _; apply incl_nil_l|].
  destruct (jindex j (K "__loader__")) as [loader|]; cbn [bind] in H; [|discriminate H].
  destruct (dispatch (e_reg E) (e_cur E) loader proto) as [[tag|]|]; cbn [bind] in H; try discriminate H.
  - destruct (kind_of_class tag) as [k|]; [|discriminate H].
    eapply build_jids; [|exact H]. intros; eapply IH; eauto.
  - destruct (jindex j (K "__module__")); cbn [bind] in H; [|discriminate H].
    destruct (jindex j (K "__class__")); cbn [bind] in H; discriminate H.
Qed.

(* ids are pairwise distinct (TreeIds), so there are at most as many as "__id__" values in the schema *)
Corollary root_tree_ids_count E schema t m : root_tree E schema = Ok (t, m) -> length (ids t) <= length (jids schema).
Proof.
  intros RT. apply NoDup_incl_length; [eapply root_tree_ids_unique; exact RT|].
  revert RT. unfold root_tree. destruct (jindex schema (K "protocol")); cbn [bind]; [|intros X; discriminate X].
  apply get_tree_jids.
Qed.

(* ================= size conditions stated on the schema alone ================= *)
Definition schema_audit_fits (schema : json) : Prop :=
  length (jids schema) * S (jdepth schema) + jdepth schema + 2 <= unsafe_fuel.
Definition schema_walk_fits (schema : json) : Prop :=
  2 * length (jids schema) * S (jdepth schema) + jdepth schema + 2 <= walk_fuel.

Lemma fits_mono2 a a' h d c : a <= a' -> h <= d -> a' * S d + d + 2 <= c -> a * S h + h + 2 <= c.
Proof.
  intros Ha Hh Hc. assert (a * S h <= a' * S d) by (apply Nat.mul_le_mono; lia). lia.
Qed.

Theorem schema_audit_fits_tree E schema t m :
  root_tree E schema = Ok (t, m) -> schema_audit_fits schema -> audit_fits t.
Proof.
  intros RT Hc. unfold audit_fits. eapply fits_mono2; [eapply root_tree_ids_count; exact RT | eapply root_tree_height; exact RT | exact Hc].
Qed.

Theorem schema_walk_fits_tree E schema t m :
  root_tree E schema = Ok (t, m) -> schema_walk_fits schema -> walk_fits t.
Proof.
  intros RT Hc. unfold walk_fits. eapply fits_mono2; [|eapply root_tree_height; exact RT | exact Hc].
  pose proof (root_tree_ids_count E schema t m RT). lia.
Qed.

(* the model's verdict on ANY schema satisfying the two arithmetic conditions is a genuine outcome *)
Theorem get_untrusted_types_schema E schema :
  jdepth schema < default_fuel -> schema_audit_fits schema -> nofuel (get_untrusted_types E schema).
Proof. intros Hd Hs. apply get_untrusted_types_genuine; [exact Hd|]. intros t m RT. eapply schema_audit_fits_tree; eauto. Qed.

Theorem load_audit_schema E schema ta :
  jdepth schema < default_fuel -> schema_audit_fits schema -> nofuel (load_audit E schema ta).
Proof. intros Hd Hs. apply load_audit_genuine; [exact Hd|]. intros t m RT. eapply schema_audit_fits_tree; eauto. Qed.

Theorem visualize_schema E skipped schema T sh :
  jdepth schema < default_fuel -> schema_audit_fits schema -> schema_walk_fits schema ->
  nofuel (visualize E skipped schema T sh).
Proof.
  intros Hd Hs Hw. apply visualize_genuine; [exact Hd|]. intros t m RT.
  split; [eapply schema_audit_fits_tree | eapply schema_walk_fits_tree]; eauto.
Qed.

Theorem construct_trace_schema E schema t m :
  root_tree E schema = Ok (t, m) ->
  length (jids schema) * S (jdepth schema) + jdepth schema + 2 <= 3000 -> nofuel (construct_trace t).
Proof.
  intros RT Hc. apply construct_trace_nofuel. unfold construct_fits.
  eapply fits_mono2; [eapply root_tree_ids_count; exact RT | eapply root_tree_height; exact RT | exact Hc].
Qed.
