(* C12: the members of an archive are exactly the files its node-states refer to, for every value that dumps (object
   arrays of every rank included: C13-F1 repaired).  Two keys of a dict with the same JSON spelling make dict_get_state raise (the
   repair of D08), a key json cannot write makes json.dumps(state) raise in _save (d_late): both are refusals,
   so the former no-collision guard is gone. *)
From Skv Require Import PyStrFacts CodecWf CodecWfFacts PyValInd CodecNameFacts.
From Coq Require Import Lia.

Definition frf (kx : pstr * json) : list pstr :=
  if pstr_eqb (fst kx) (s "file") then match snd kx with JStr n => [n] | _ => file_refs (snd kx) end else file_refs (snd kx).
Lemma file_refs_obj kv : file_refs (JObj kv) = flat_map frf kv.
Proof. cbn [file_refs]. induction kv as [|[k x] kv IH]; [reflexivity|]. cbn [flat_map]. unfold frf at 1. cbn [fst snd]. rewrite <- IH. reflexivity. Qed.
Lemma file_refs_arr l : file_refs (JArr l) = flat_map file_refs l.
Proof. cbn [file_refs]. induction l as [|x l IH]; [reflexivity|]. cbn [flat_map]. rewrite <- IH. reflexivity. Qed.
Lemma file_refs_state c m l fields id : file_refs (node_state c m l fields id) = flat_map frf fields.
Proof.
  unfold node_state. rewrite file_refs_obj. cbn [flat_map]. rewrite flat_map_app. cbn [flat_map].
  change (frf (K "__class__", JStr c)) with (@nil pstr). change (frf (K "__module__", JStr m)) with (@nil pstr).
  change (frf (K "__loader__", JStr l)) with (@nil pstr). change (frf (K "__id__", JInt id)) with (@nil pstr).
  cbn [app]. rewrite !app_nil_r. reflexivity.
Qed.
Lemma frf_state k x : (exists kv, x = JObj kv) -> frf (k, x) = file_refs x.
Proof. intros [kv ->]. unfold frf. cbn [fst snd]. destruct (pstr_eqb k (s "file")); reflexivity. Qed.

Definition NX (st : dst) (refs : list pstr) (st' : dst) : Prop :=
  forall n, In n (names st') <-> In n (names st) \/ In n refs.
Lemma NX_nil st : NX st [] st. Proof. intros n. cbn [In]. tauto. Qed.
Lemma NX_trans st r1 st1 r2 st2 : NX st r1 st1 -> NX st1 r2 st2 -> NX st (r1 ++ r2) st2.
Proof. intros H1 H2 n. rewrite (H2 n), (H1 n), in_app_iff. tauto. Qed.
Lemma NX_names st st' refs : names st' = names st -> NX st refs st' -> forall st0, names st0 = names st -> NX st0 refs st'.
Proof. intros _ H st0 H0 n. rewrite (H n), H0. tauto. Qed.
Lemma NX_write f b st : NX st [f] (write_member f b st).
Proof. intros n. unfold names, write_member. cbn [d_members]. rewrite map_app, in_app_iff. cbn. tauto. Qed.
Lemma NX_cond f b st : NX st [f] (if has_member f st then st else write_member f b st).
Proof.
  destruct (has_member f st) eqn:Hh; [|apply NX_write]. intros n. unfold has_member in Hh. apply mem_In in Hh. cbn. split; [tauto|].
  intros [H|[<-|[]]]; [exact H|exact Hh].
Qed.

(* NX, for the dumps whose deferred json.dumps(state) error is not set at the end (d_late only ever goes from
   None to Some): then it was not set at the start either *)
Definition RX (st : dst) (refs : list pstr) (st' : dst) : Prop :=
  d_late st' = None -> d_late st = None /\ NX st refs st'.
Lemma RX_of_NX st refs st' : d_late st' = d_late st -> NX st refs st' -> RX st refs st'.
Proof. intros Hl Hn H. rewrite <- Hl. split; assumption. Qed.
Lemma RX_trans st r1 st1 r2 st2 : RX st r1 st1 -> RX st1 r2 st2 -> RX st (r1 ++ r2) st2.
Proof. intros H1 H2 H. destruct (H2 H) as [L1 N2]. destruct (H1 L1) as [L0 N1]. split; [exact L0|eapply NX_trans; eassumption]. Qed.
Lemma RX_pre st0 st refs st' : names st0 = names st -> d_late st0 = d_late st -> RX st0 refs st' -> RX st refs st'.
Proof. intros Hn Hl H H'. destruct (H H') as [L N]. split; [rewrite <- Hl; exact L|]. intros n. rewrite (N n), Hn. tauto. Qed.
Lemma set_late_some e st : d_late (set_late e st) <> None.
Proof. unfold set_late. cbn [d_late]. destruct (d_late st); discriminate. Qed.

Section Refs.
  Variable E : denv.
  Definition Mx (v : pval) : Prop :=
    forall st j st', get_state E v st = Ok (j, st') -> RX st (file_refs j) st'.

  Lemma states_refs l : Forall Mx l ->
    forall st js st', states_of (fun x s0 => get_state E x s0) l st = Ok (js, st') -> RX st (flat_map file_refs js) st'.
  Proof.
    induction 1 as [|x l Hx Hl IH]; intros st js st' H; cbn [states_of] in H.
    - injection H as <- <-. apply RX_of_NX; [reflexivity|apply NX_nil].
    - inv_bind H. cbn [flat_map].
      eapply RX_trans; [eapply Hx; eauto|eapply IH; eauto].
  Qed.

  Lemma frf_nofile k x : pstr_eqb k (s "file") = false -> frf (k, x) = file_refs x.
  Proof. intros H. unfold frf. cbn [fst snd]. rewrite H. reflexivity. Qed.

  Lemma jset_fresh' t j acc : ~ In t (map fst acc) -> jset t j acc = acc ++ [(t, j)].
  Proof.
    induction acc as [|[t' j'] acc IH]; cbn [map fst In jset app]; intros H; [reflexivity|].
    destruct (pstr_eqb t t') eqn:Eq; [apply pstr_eqb_eq in Eq; subst; tauto|]. rewrite IH by tauto. reflexivity.
  Qed.
  (* the loop did not raise at this key: its text is new, the entry is appended *)
  Lemma no_collision_fresh k sc j acc : k_val k = Some sc -> key_collides k acc = false ->
    jset (key_text sc) j acc = acc ++ [(key_text sc, j)].
  Proof.
    intros Ek Hc. unfold key_collides in Hc. rewrite Ek in Hc. apply jset_fresh'. intro Hin. apply mem_In in Hin. rewrite Hin in Hc. discriminate.
  Qed.

  (* every entry written stays in `content` (no later key replaces it), so the references of the values' states are
     exactly the references of the content; a key json refuses sets the deferred error: excluded by d_late st' = None *)
  Lemma content_refs l : Forall (fun kv => Mx (snd kv)) l ->
    forall acc st cont st',
      content_of (fun x s0 => get_state E x s0) l acc st = Ok (cont, st') -> d_late st' = None ->
      d_late st = None /\ exists refs, flat_map frf cont = flat_map frf acc ++ refs /\ NX st refs st'.
  Proof.
    induction 1 as [|[k x] l Hx Hl IH]; intros acc st cont st' H Hlate; cbn [content_of] in H.
    - injection H as <- <-. split; [exact Hlate|]. exists []. split; [rewrite app_nil_r; reflexivity|apply NX_nil].
    - destruct (is_prop x) eqn:Hp; [eapply IH; eauto|].
      destruct (key_collides k acc) eqn:Hkc; [discriminate|].
      destruct (get_state E x st) as [[j st1]|] eqn:Ex; [|discriminate]. cbn [bind] in H.
      destruct (k_val k) as [sc|] eqn:Ek.
      + rewrite (no_collision_fresh k sc j acc Ek Hkc) in H.
        destruct (IH (acc ++ [(key_text sc, j)]) st1 cont st' H Hlate) as [L1 [refs [Hf Hn]]].
        destruct (Hx _ _ _ Ex L1) as [L0 N0]. split; [exact L0|].
        destruct (root_fields _ _ _ _ _ Ex) as [kv [Hj _]].
        exists (file_refs j ++ refs). split.
        * rewrite Hf, flat_map_app. cbn [flat_map]. rewrite (frf_state _ j (ex_intro _ kv Hj)), app_nil_r, <- app_assoc. reflexivity.
        * eapply NX_trans; [exact N0|exact Hn].
      + destruct (IH acc (set_late EType st1) cont st' H Hlate) as [L1 _]. destruct (set_late_some _ _ L1).
  Qed.

  Definition Mcx (c : clo) : Prop := forall st j st', c st = Ok (j, st') -> RX st (file_refs j) st'.
  Lemma list_state_refs items lid : file_refs (list_state items lid) = flat_map file_refs items.
  Proof. unfold list_state. rewrite file_refs_state. cbn [flat_map]. rewrite frf_nofile by reflexivity. rewrite file_refs_arr, app_nil_r. reflexivity. Qed.

  Lemma run_all_refs cs : Forall Mcx cs -> forall st js st', run_all cs st = Ok (js, st') -> RX st (flat_map file_refs js) st'.
  Proof.
    induction 1 as [|c cs Hc Hcs IH]; intros st js st' H; cbn [run_all] in H.
    - injection H as <- <-. apply RX_of_NX; [reflexivity|apply NX_nil].
    - inv_bind H. cbn [flat_map]. eapply RX_trans; [eapply Hc; eauto|eapply IH; eauto].
  Qed.
  Lemma content_refs_clos dims cs : Forall Mcx cs -> Forall Mcx (content_clos dims cs).
  Proof.
    apply content_clos_ind.
    - intros st j st' H. discriminate H.
    - intros cs0 Hcs st j st' H. unfold list_clo in H. destruct (fresh st) as [lid st0] eqn:Hf.
      assert (Hn0 : names st0 = names st /\ d_late st0 = d_late st) by (unfold fresh in Hf; injection Hf as <- <-; split; reflexivity).
      destruct Hn0 as [Hn0 Hl0].
      destruct (run_all cs0 st0) as [[items st1]|] eqn:E1; [|discriminate H]. cbn [bind] in H. injection H as <- <-.
      rewrite list_state_refs. eapply RX_pre; [exact Hn0|exact Hl0|]. eapply run_all_refs; eassumption.
  Qed.

  Lemma kts_refs ks : forall kts, key_type_states E ks = Ok kts -> flat_map file_refs kts = [].
  Proof.
    induction ks as [|k ks IH]; intros kts H; cbn [key_type_states] in H.
    - injection H as <-. reflexivity.
    - destruct (dget _ _) as [tid|]; [|discriminate]. destruct (key_type_states E ks) as [rest|]; [|discriminate]. cbn [bind] in H.
      injection H as <-. cbn [flat_map]. rewrite (IH _ eq_refl). reflexivity.
  Qed.
  Lemma shape_items_refs dims : forall st js st', shape_items dims st = (js, st') ->
    flat_map file_refs js = [] /\ names st' = names st /\ d_late st' = d_late st.
  Proof.
    induction dims as [|d dims IH]; intros st js st' H; cbn [shape_items] in H; [injection H as <- <-; auto|].
    destruct (int_obj d st) as [i st1] eqn:Ei. destruct (shape_items dims st1) as [rest st2] eqn:Er. injection H as <- <-.
    destruct (IH _ _ _ Er) as [H1 [H2 H3]]. cbn [flat_map]. rewrite H1. split; [reflexivity|]. rewrite H2, H3.
    unfold int_obj in Ei. destruct (is_small_int d); [injection Ei as <- <-; split; reflexivity|]. unfold fresh in Ei. injection Ei as <- <-. split; reflexivity.
  Qed.
  Lemma shape_state_refs dims st j st' : shape_state dims st = (j, st') ->
    file_refs j = [] /\ names st' = names st /\ d_late st' = d_late st.
  Proof.
    unfold shape_state. intros H. destruct dims as [|d0 dims0].
    - cbn in H. injection H as <- <-. repeat split; reflexivity.
    - destruct (fresh st) as [tid st0] eqn:Hf. destruct (shape_items (d0 :: dims0) st0) as [items st1] eqn:Es. injection H as <- <-.
      destruct (shape_items_refs _ _ _ _ Es) as [H1 [H2 H3]]. rewrite file_refs_state. cbn [flat_map]. rewrite frf_nofile by reflexivity.
      rewrite file_refs_arr, H1. split; [reflexivity|]. rewrite H2, H3. unfold fresh in Hf. injection Hf as <- <-. split; reflexivity.
  Qed.

  Ltac refs := unfold json_state, type_state; rewrite file_refs_state; cbn [flat_map]; rewrite ?frf_nofile by reflexivity; rewrite ?file_refs_obj; cbn [flat_map];
               rewrite ?frf_nofile by reflexivity; rewrite ?app_nil_r.
  Ltac same := apply RX_of_NX; [reflexivity|apply NX_nil].

  Theorem get_state_refs : forall v, Mx v.
  Proof.
    apply (pval_ind' Mx).
    - intros v Hl st j st' H. destruct v; try discriminate Hl; cbn [get_state] in H.
      + injection H as <- <-. refs. same.
      + injection H as <- <-. refs. same.
      + destruct (fresh_uuid st) as [u st1] eqn:Hf. injection H as <- <-.
        assert (Hn : names st1 = names st /\ d_late st1 = d_late st) by (unfold fresh_uuid in Hf; injection Hf as <- <-; split; reflexivity).
        destruct Hn as [Hn Hl1].
        destruct ba; rewrite file_refs_state; cbn [flat_map]; change (frf (K "file", JStr (uuid_name u))) with [uuid_name u]; cbn [app];
          (apply RX_of_NX; [exact Hl1|intros n; rewrite (NX_write (uuid_name u) _ st1 n), Hn; tauto]).
      + discriminate.
      + assert (Hsb : forall b st0 jb st1, sbound_json b st0 = Ok (jb, st1) ->
                  names st1 = names st0 /\ file_refs jb = [] /\ (d_late st1 = None -> d_late st0 = None)).
        { intros b0 st0 jb st1 Hb. destruct b0 as [[| | | |]|]; cbn in Hb; try discriminate; injection Hb as <- <-;
            (split; [reflexivity|split; [reflexivity|]]); try (intro Hx; exact Hx).
          intro Hx. destruct (set_late_some _ _ Hx). }
        inv_bind H. destruct (Hsb _ _ _ _ E0) as [N0 [R0 L0]]. destruct (Hsb _ _ _ _ E1) as [N1 [R1 L1]]. destruct (Hsb _ _ _ _ E2) as [N2 [R2 L2]].
        refs. rewrite R0, R1, R2. cbn [app]. intros Hlate. split; [auto|].
        intros n. unfold names in *. rewrite N2, N1, N0. cbn [In]. tauto.
      + injection H as <- <-. rewrite file_refs_state. cbn [flat_map]. rewrite frf_nofile by reflexivity.
        change (frf (K "file", JStr (npy_name id))) with [npy_name id]. cbn [app file_refs].
        apply RX_of_NX; [destruct (has_member (npy_name id) st); reflexivity|apply NX_cond].
      + destruct (fresh st) as [tid st0] eqn:Hf. injection H as <- <-.
        assert (Hn : names st0 = names st /\ d_late st0 = d_late st) by (unfold fresh in Hf; injection Hf as <- <-; split; reflexivity).
        destruct Hn as [Hn Hl0].
        rewrite file_refs_state. cbn [flat_map]. rewrite frf_nofile by reflexivity. rewrite file_refs_state. cbn [flat_map].
        rewrite frf_nofile by reflexivity. change (frf (K "file", JStr (npy_name tid))) with [npy_name tid]. cbn [app file_refs].
        apply RX_of_NX; [destruct (has_member (npy_name tid) st0); exact Hl0|].
        intros n. rewrite (NX_cond (npy_name tid) _ st0 n), Hn. tauto.
      + injection H as <- <-. rewrite file_refs_state. cbn [flat_map]. rewrite frf_nofile by reflexivity.
        change (frf (K "file", JStr (npz_name id))) with [npz_name id]. cbn [app file_refs].
        apply RX_of_NX; [destruct (has_member (npz_name id) st); reflexivity|apply NX_cond].
      + injection H as <- <-. refs. same.
      + injection H as <- <-. unfold type_state. refs. same.
      + discriminate.
    - intros q id m c nt l IH st j st' H. cbn [get_state] in H. inv_bind H.
      destruct q; refs; rewrite file_refs_arr; eapply states_refs; eauto.
    - intros id m c l IH st j st' H. cbn [get_state] in H.
      destruct (fresh st) as [ktid st0] eqn:Hf. inv_bind H.
      assert (Hn : names st0 = names st /\ d_late st0 = d_late st) by (unfold fresh in Hf; injection Hf as <- <-; split; reflexivity).
      destruct Hn as [Hn Hl0]. intros Hlate.
      destruct (content_refs l IH [] st0 _ _ E1 Hlate) as [L0 [refs0 [Hfr Hnx]]]. split; [rewrite <- Hl0; exact L0|].
      unfold dict_state. refs. rewrite Hfr. cbn [flat_map app]. unfold list_state. rewrite file_refs_state. cbn [flat_map].
      rewrite frf_nofile by reflexivity. rewrite file_refs_arr, (kts_refs _ _ E0). cbn [app]. rewrite app_nil_r.
      intros n. rewrite (Hnx n), Hn. tauto.
    - intros id m c f l IHf IH st j st' H. cbn [get_state] in H.
      destruct (fresh st) as [did st0] eqn:Hf. destruct (fresh st0) as [ktid st0'] eqn:Hf2. inv_bind H.
      assert (Hn : names st0' = names st /\ d_late st0' = d_late st)
        by (unfold fresh in Hf, Hf2; injection Hf as <- <-; injection Hf2 as <- <-; split; reflexivity).
      destruct Hn as [Hn Hl0]. intros Hlate.
      destruct (IHf _ _ _ E2 Hlate) as [L1 Hnf].
      destruct (content_refs l IH [] st0' _ _ E1 L1) as [L0 [refs0 [Hfr Hnx]]]. split; [rewrite <- Hl0; exact L0|].
      refs. unfold dict_state. rewrite file_refs_state. cbn [flat_map]. rewrite ?frf_nofile by reflexivity. rewrite file_refs_obj, Hfr. cbn [flat_map app].
      unfold list_state. rewrite file_refs_state. cbn [flat_map]. rewrite frf_nofile by reflexivity. rewrite file_refs_arr, (kts_refs _ _ E0). cbn [app].
      rewrite !app_nil_r. destruct (root_fields _ _ _ _ _ E2) as [kvf [Hjf _]]. subst j0.
      intros n. rewrite (Hnf n), (Hnx n), Hn, in_app_iff. tauto.
    - intros id m c sh l IH st j st' H. cbn [get_state] in H.
      destruct (shape_okb sh (length l)); [|discriminate H].
      destruct (fresh st) as [lid st0] eqn:Hf0.
      assert (Hn0 : names st0 = names st /\ d_late st0 = d_late st) by (unfold fresh in Hf0; injection Hf0 as <- <-; split; reflexivity).
      destruct Hn0 as [Hn0 Hl0].
      destruct (run_all _ st0) as [[items st1]|] eqn:E0; [|discriminate H]. cbn [bind] in H.
      destruct (shape_state sh st1) as [shj st2] eqn:E1. injection H as <- <-.
      assert (Hcl : Forall Mcx (map (fun x s0 => get_state E x s0) l)).
      { clear -IH. rewrite Forall_forall in IH. apply Forall_forall. intros c0 Hc0.
        apply in_map_iff in Hc0. destruct Hc0 as [x [<- Hx]]. intros st j st' H. eapply IH; eauto. }
      pose proof (run_all_refs _ (content_refs_clos (map Z.to_nat sh) _ Hcl) _ _ _ E0) as Hn1.
      destruct (shape_state_refs _ _ _ _ E1) as [Hs1 [Hs2 Hs3]].
      rewrite file_refs_state. cbn [flat_map]. rewrite ?frf_nofile by reflexivity. rewrite file_refs_arr, Hs1. cbn [file_refs app]. rewrite app_nil_r.
      intros Hlate. rewrite Hs3 in Hlate. destruct (Hn1 Hlate) as [L0 N0]. split; [rewrite <- Hl0; exact L0|].
      intros n. unfold names in *. rewrite Hs2, <- Hn0. exact (N0 n).
    - intros id m c d k IHd IHk st j st' H. cbn [get_state] in H.
      inv_bind H. refs.
      destruct (root_fields _ _ _ _ _ E0) as [kv0 [-> _]]. destruct (root_fields _ _ _ _ _ E1) as [kv1 [-> _]].
      rewrite ?frf_nofile by reflexivity. rewrite ?app_nil_r. eapply RX_trans; [eapply IHd; eauto|eapply IHk; eauto].
    - intros id m c x IHx st j st' H. cbn [get_state] in H. inv_bind H. refs. eapply IHx; eauto.
    - intros id m c x y IHx IHy st j st' H. cbn [get_state] in H.
      inv_bind H. refs.
      rewrite ?frf_nofile by reflexivity. rewrite ?app_nil_r. eapply RX_trans; [eapply IHx; eauto|eapply IHy; eauto].
    - intros id m c f a k n IHf IHa IHk IHn st j st' H. cbn [get_state] in H.
      inv_bind H. refs. rewrite ?frf_nofile by reflexivity. rewrite ?app_nil_r.
      eapply RX_trans; [eapply IHf; eauto|]. eapply RX_trans; [eapply IHa; eauto|]. eapply RX_trans; [eapply IHk; eauto|eapply IHn; eauto].
    - intros id c a IHa st j st' H. cbn [get_state] in H. inv_bind H. refs. eapply IHa; eauto.
    - intros id m f x IHx st j st' H. cbn [get_state] in H. inv_bind H. refs.
      rewrite ?frf_nofile by reflexivity. cbn [file_refs app]. rewrite ?app_nil_r. eapply IHx; eauto.
    - intros id m c hk h ok x _ IHx st j st' H. cbn [get_state] in H.
      destruct ok; inv_bind H; refs; try (eapply IHx; eauto). same.
  Qed.
End Refs.

(* the members of the archive are exactly the files its node-states refer to *)
Theorem dumps_members_exact D base v a : dumps_model D base v = Ok a ->
  forall n, In n (map fst (a_members a)) <-> In n (file_refs (a_schema a)).
Proof.
  unfold dumps_model. intros H. destruct (get_state D v (init_dst base)) as [[j st]|] eqn:E0; [|discriminate]. cbn [bind] in H.
  pose proof (get_state_refs D v _ _ _ E0) as Hn. destruct j; try discriminate. destruct (d_late st) eqn:Hlate; [discriminate|]. injection H as <-.
  destruct (Hn Hlate) as [_ Hn'].
  cbn [a_members a_schema]. intros n. rewrite (Hn' n). unfold names. cbn [init_dst d_members map In].
  rewrite !file_refs_obj, flat_map_app. cbn [flat_map]. rewrite ?frf_nofile by reflexivity. cbn [file_refs app]. rewrite app_nil_r. tauto.
Qed.
