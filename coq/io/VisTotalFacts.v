(* C13, first clause: visualize is total on what the dumper writes (the row generator and every show mode).
   1. ranks: the tree get_tree builds from a state get_state emitted is `good` (every node of an object sits strictly
      above the nodes of, or references to, its parts), by induction over the C05 fragment (vok_good);
   2. graph: a ranked tree has bounded depth through references and no cycle (good_fits), every reference of any tree
      get_tree builds resolves (root_refs_resolve); the audit of every node completes and does not depend on the fuel left
      or the ids on the stack (unsafe_total, unsafe_indep);
   3. walk yields, without error, a pre-order forest in which a fully safe row has only fully safe rows below it (walk_ok);
      the root row comes first and everything after it lies below it (node_shape);
   4. _traverse_tree (with hidden_level, D24 repaired) accepts every pre-order stream under every filter
      (WalkFacts.traverse_preorder) and prints the forest with the subtrees of hidden rows cut off (WalkFacts.shown_forest):
      everything for show = all, exactly the not-fully-safe rows for show = untrusted (safe-closedness), the rows whose
      ancestors below the root and themselves are self-safe for show = trusted. *)
From Skv Require Import PyStrFacts CodecGuards CodecWfFacts PyValInd NodeInd TreeIds TreeWf GraphAudit ConstructFacts Families.
From Skv Require Import CodecMemberFacts CodecTreeFacts CodecShareFacts CodecFacts CodecRootFacts.
From Skv Require Import Unsafe UnsafeFacts AuditFacts Walk WalkFacts.
From Coq Require Import Lia.

(* ================= what walk / the audit need of one node; ranks ================= *)
Definition is_jstr (j : json) : bool := match j with JStr _ => true | _ => false end.
(* a child that is not a raw JSON leaf *)
Definition leaf_plain (n : node) : bool := match n with Leaf _ (LRaw _) => false | _ => true end.

Definition nice (h : hdr) (subs : list node) : bool :=
  is_jstr (h_class h) && is_jstr (h_module h)
  && match h_kind h with
     | KJson => is_jstr (h_aux h) && match subs with [] => true | _ => false end
     | KSlice => forallb is_leaf subs && pstr_eqb (h_tag h) (s "_general.SliceNode")
     | KFunction => match subs with [] => true | _ => false end
     | KFunctionV0 | KMethod | KRandomGeneratorV0 => false
     | KDict => forallb leaf_plain subs && match subs with [] => false | _ => true end
     | _ => forallb leaf_plain subs
     end.

(* ---- ranks: a node of an object of the value sits strictly above the nodes (or references) of its parts ---- *)
Section Good.
  Variable base : Z.
  Variable Objs : pval -> Prop.

  Inductive good : nat -> node -> Prop :=
  | good_leaf r sl l : good r (Leaf sl l)
  | good_ref r sl w : Objs w -> (need w <= r)%nat -> good r (Ref sl (key (pid w)))
  | good_obj r h subs w : Objs w -> h_id h = Some (key (pid w)) -> (need w <= r)%nat -> nice h subs = true ->
      Forall (good (need w - 1)) subs -> good r (Node h subs)
  | good_alloc r h subs z : (base <= z)%Z -> h_id h = Some (key z) -> nice h subs = true -> (1 <= r)%nat ->
      Forall (good (r - 1)) subs -> good r (Node h subs).

  Lemma good_mono : forall n r r', good r n -> (r <= r')%nat -> good r' n.
  Proof.
    induction n as [h0 subs0 IH|sl i|sl l] using node_ind'; intros r r' Hg Hr; inversion Hg; subst.
    - eapply good_obj; eauto. lia.
    - eapply good_alloc; eauto; [lia|]. rewrite Forall_forall in *. intros x Hx. eapply IH; [exact Hx|eauto|lia].
    - constructor; [assumption|lia].
    - constructor.
  Qed.
End Good.


(* ================= the tree built from a dumped state is ranked ================= *)

(* ---- list facts that do not depend on the section ---- *)
Lemma vl_dget_none_notin {A} t (acc : list (pstr * A)) : ~ In t (map fst acc) -> dget t acc = None.
Proof.
  induction acc as [|[t' j'] acc IH]; cbn [map fst dget In]; intros H; [reflexivity|].
  destruct (pstr_eqb t t') eqn:Eq; [apply pstr_eqb_eq in Eq; subst; tauto|]. apply IH. tauto.
Qed.

Lemma vl_content_states f : forall items acc st cont st',
  Forall (fun kv => is_prop (snd kv) = false /\ k_val (fst kv) <> None) items ->
  NoDup (map fst acc ++ map (fun kv => ktext (fst kv)) items) ->
  content_of f items acc st = Ok (cont, st') ->
  exists js, states_of f (map snd items) st = Ok (js, st') /\ cont = acc ++ combine (map (fun kv => ktext (fst kv)) items) js.
Proof.
  induction items as [|[k x] items IH]; intros acc st cont st' Hf Hnd H; cbn [content_of] in H.
  - injection H as <- <-. exists []. split; [reflexivity|]. cbn. rewrite app_nil_r. reflexivity.
  - inversion Hf as [|? ? [Hp Hk] Hf']; subst. cbn [fst snd] in Hp, Hk. rewrite Hp in H.
    destruct (k_val k) as [sc|] eqn:Ek; [|congruence].
    cbn [map fst] in Hnd. unfold ktext in Hnd at 1. rewrite Ek in Hnd.
    rewrite (nodup_no_collision k sc acc _ Ek Hnd) in H.     (* distinct spellings: the collision branch is dead *)
    destruct (f x st) as [[j st1]|] eqn:Ef; [|discriminate]. cbn [bind] in H.
    rewrite jset_fresh in H.
    2:{ apply vl_dget_none_notin. intro Hin. apply NoDup_remove_2 in Hnd. apply Hnd. apply in_or_app. left. exact Hin. }
    destruct (IH (acc ++ [(key_text sc, j)]) st1 cont st' Hf') as [js [Hs Hc]].
    { rewrite map_app. cbn [map fst]. rewrite <- app_assoc. cbn [app].
      clear -Hnd. revert Hnd. generalize (map fst acc) as a, (map (fun kv : dkey * pval => ktext (fst kv)) items) as b, (key_text sc) as t.
      intros a b t H. induction a as [|y a IHa]; cbn [app] in *; [exact H|].
      inversion H as [|? ? Hy Hr]; subst. constructor; [|apply IHa; exact Hr].
      intro Hin. apply Hy. apply in_app_or in Hin. apply in_or_app. destruct Hin as [Hin|[<-|Hin]]; [left; exact Hin|right; left; reflexivity|right; right; exact Hin]. }
    { exact H. }
    exists (j :: js). cbn [map snd states_of]. rewrite Ef. cbn [bind]. rewrite Hs. cbn [bind]. split; [reflexivity|].
    rewrite Hc. cbn [map fst combine]. unfold ktext at 2. rewrite Ek. rewrite <- app_assoc. reflexivity.
Qed.

Lemma vl_plain_of_notleaf ns : Forall (fun n => notleaf n = true) ns -> forallb leaf_plain ns = true.
Proof.
  induction 1 as [|n ns Hn Hr IH]; [reflexivity|]. cbn [forallb]. rewrite IH, andb_true_r.
  destruct n; [reflexivity|reflexivity|discriminate Hn].
Qed.

Section Local.
  Variable D : denv.
  Variable F : cfacts.
  Variable E : env.
  Variable base : Z.
  Variable Objs : pval -> Prop.
  Hypothesis Ofun : forall a b, Objs a -> Objs b -> pid a = pid b -> a = b.
  Hypothesis Oid : forall a, Objs a -> (0 < pid a < base)%Z.
  Hypothesis Hreg : reg_ok (e_reg E) (e_cur E) = true.
  Let proto : json := JInt (e_cur E).

  Definition PV (v : pval) : Prop :=
    forall st j st', get_state D v st = Ok (j, st') -> (base <= d_next st)%Z ->
      (d_next st <= d_next st')%Z /\
      forall fuel m sl n m', get_tree fuel E proto [] sl m j = Ok (n, m') -> memo_lt m (d_next st) ->
        memo_lt m' (d_next st') /\ good base Objs (need v) n /\ notleaf n = true.

  (* what get_tree returns for a state, relative to the allocator bound B' after the dump of that state *)
  Definition Out (r : nat) (B' : Z) (n : node) (m' : memo) : Prop :=
    memo_lt m' B' /\ good base Objs r n /\ notleaf n = true.

  (* the carrier of an id: an object of the value of rank r, or an object the dumper allocated *)
  Definition own (id : Z) (r : nat) : Prop :=
    (exists w, Objs w /\ pid w = id /\ need w = r) \/ (base <= id)%Z.

  Lemma good_own id r h subs : own id r -> h_id h = Some (key id) -> nice h subs = true -> (1 <= r)%nat ->
    Forall (good base Objs (r - 1)) subs -> good base Objs r (Node h subs).
  Proof.
    intros [[w [Hw [Hp Hn]]]|Hb] Hid Hnice Hr Hsubs.
    - subst id r. eapply good_obj; eauto.
    - eapply good_alloc; eauto.
  Qed.

  Lemma own_obj v : Objs v -> own (pid v) (need v).
  Proof. intros Hv. left. exists v. auto. Qed.

  (* ---- the Ref branch of get_tree, shared by every kind ---- *)
  Lemma wrap v c mo l fields tag k B B' :
    Objs v -> dget (s "__id__") fields = None -> In (l, tag) frag_loaders -> kind_of_class tag = Some k ->
    (B <= B')%Z ->
    (forall fuel m sl n m', build E (get_tree fuel E proto) sl [] tag k m (node_state c mo l fields (pid v)) = Ok (n, m') ->
       memo_lt m B -> Out (need v) B' n m') ->
    forall fuel m sl n m', get_tree fuel E proto [] sl m (node_state c mo l fields (pid v)) = Ok (n, m') ->
      memo_lt m B -> Out (need v) B' n m'.
  Proof.
    intros Hv Hf Hl Hk HB Hnode fuel m sl n m' H Hm. destruct fuel as [|fuel]; [discriminate H|].
    unfold proto in H. rewrite (gt_step E Hreg _ _ _ _ _ _ _ _ _ _ Hf Hl Hk) in H. destruct (memo_mem (key (pid v)) m) eqn:Hmem.
    - injection H as <- <-. split; [eapply memo_lt_le; eauto|]. split; [|reflexivity]. apply good_ref; [exact Hv|lia].
    - eapply Hnode; eauto.
  Qed.

  (* ---- values whose node has no child node ---- *)
  Lemma leaf_PV v c mo l fields tag k (haux : hdr -> hdr) subs B B' :
    Objs v -> dget (s "__id__") fields = None -> In (l, tag) frag_loaders -> kind_of_class tag = Some k ->
    (forall h, h_id (haux h) = h_id h) ->
    (forall sl, nice (haux (mkh sl k tag (pid v) c mo JNull)) subs = true) ->
    (forall x, In x subs -> exists sl lf, x = Leaf sl lf) ->
    (forall rec sl m n m', build E rec sl [] tag k m (node_state c mo l fields (pid v)) = Ok (n, m') ->
       exists h, node_init sl k tag [] true m (node_state c mo l fields (pid v)) JNull = Ok (h, m') /\ n = Node (haux h) subs) ->
    (B <= B')%Z -> (base <= B)%Z ->
    forall fuel m sl n m', get_tree fuel E proto [] sl m (node_state c mo l fields (pid v)) = Ok (n, m') ->
      memo_lt m B -> Out (need v) B' n m'.
  Proof.
    intros Hv Hf Hl Hk Haux Hnice Hsubs Hb HB Hbase. pose proof (Oid _ Hv) as Hid.
    apply (wrap v c mo l fields tag k B B'); try assumption.
    intros fuel m sl n m' H Hm. destruct (Hb _ _ _ _ _ H) as [h [Hi ->]].
    rewrite init_eq in Hi by (try assumption; lia). injection Hi as <- <-.
    split; [apply memo_lt_cons; [lia|eapply memo_lt_le; eauto]|]. split; [|reflexivity].
    apply (good_own (pid v)); [apply own_obj; exact Hv|rewrite Haux; reflexivity|apply Hnice|apply need_pos|].
    rewrite Forall_forall. intros x Hx. destruct (Hsubs x Hx) as [sl0 [lf ->]]. apply good_leaf.
  Qed.

  Lemma scalar_PV id sc : Objs (PScalar id sc) -> PV (PScalar id sc).
  Proof.
    intros Hv st j st' H Hb. cbn [get_state] in H. injection H as <- <-. split; [lia|].
    unfold json_state.
    apply (leaf_PV (PScalar id sc) _ _ _ _ (s "_general.JsonNode") KJson (fun h => set_aux h (JStr (json_text sc))) [] (d_next st) (d_next st));
      try assumption; try reflexivity; try lia.
    - cbn; tauto.
    - intros x [].
    - intros rec sl m n m' H. unfold build in H.
      destruct (node_init _ _ _ _ _ _ _ _) as [[h m0]|]; [|discriminate H]. cbn [bind] in H.
      match type of H with context [jindex ?j0 (GetTree.K "content")] =>
        change (jindex j0 (GetTree.K "content")) with (Ok (A:=json) (JStr (json_text sc))) in H end.
      cbn [bind] in H. injection H as <- <-. eauto.
  Qed.

  Lemma func_PV id mo c : Objs (PFunc id mo c) -> PV (PFunc id mo c).
  Proof.
    intros Hv st j st' H Hb. cbn [get_state] in H. injection H as <- <-. split; [lia|].
    apply (leaf_PV (PFunc id mo c) _ _ _ _ (s "_general.FunctionNode") KFunction (fun h => h) [] (d_next st) (d_next st));
      try assumption; try reflexivity; try lia.
    - cbn; tauto.
    - intros x [].
    - intros rec sl m n m' H. unfold build in H.
      destruct (node_init _ _ _ _ _ _ _ _) as [[h m0]|]; [|discriminate H]. cbn [bind] in H. injection H as <- <-. eauto.
  Qed.

  Lemma type_PV id mo c : Objs (PType id mo c) -> PV (PType id mo c).
  Proof.
    intros Hv st j st' H Hb. cbn [get_state] in H. injection H as <- <-. split; [lia|].
    unfold type_state.
    apply (leaf_PV (PType id mo c) _ _ _ _ (s "_general.TypeNode") KType (fun h => h) [] (d_next st) (d_next st));
      try assumption; try reflexivity; try lia.
    - cbn; tauto.
    - intros x [].
    - intros rec sl m n m' H. unfold build in H.
      destruct (node_init _ _ _ _ _ _ _ _) as [[h m0]|]; [|discriminate H]. cbn [bind] in H. injection H as <- <-. eauto.
  Qed.

  Lemma sbound_next a st ja st1 : sbound_json a st = Ok (ja, st1) -> d_next st1 = d_next st.
  Proof. destruct a as [[| | | |]|]; cbn [sbound_json]; intros H; try discriminate H; injection H as <- <-; reflexivity. Qed.

  Lemma slice_PV id a b c : Objs (PSlice id a b c) -> PV (PSlice id a b c).
  Proof.
    intros Hv st j st' H Hb. cbn [get_state] in H.
    destruct (sbound_json a st) as [[ja st1]|] eqn:Ea; [|discriminate H]. cbn [bind] in H.
    destruct (sbound_json b st1) as [[jb st2]|] eqn:Eb; [|discriminate H]. cbn [bind] in H.
    destruct (sbound_json c st2) as [[jc st3]|] eqn:Ec; [|discriminate H]. cbn [bind] in H.
    injection H as <- <-. apply sbound_next in Ea, Eb, Ec. split; [lia|].
    apply (leaf_PV (PSlice id a b c) _ _ _ _ (s "_general.SliceNode") KSlice (fun h => h)
             [Leaf (SOne (GetTree.K "start")) (LRaw ja); Leaf (SOne (GetTree.K "stop")) (LRaw jb); Leaf (SOne (GetTree.K "step")) (LRaw jc)]
             (d_next st) (d_next st3));
      try assumption; try reflexivity; try lia.
    - cbn; tauto.
    - intros x [<-|[<-|[<-|[]]]]; eauto.
    - intros rec sl m n m' H. unfold build in H.
      destruct (node_init _ _ _ _ _ _ _ _) as [[h m0]|]; [|discriminate H]. cbn [bind] in H.
      set (cj := JObj [(CodecDump.K "start", ja); (CodecDump.K "stop", jb); (CodecDump.K "step", jc)]) in H.
      match type of H with context [jindex ?j0 (GetTree.K "content")] =>
        change (jindex j0 (GetTree.K "content")) with (Ok (A:=json) cj) in H end.
      cbn [bind] in H.
      change (jindex cj (GetTree.K "start")) with (Ok (A:=json) ja) in H.
      change (jindex cj (GetTree.K "stop")) with (Ok (A:=json) jb) in H.
      change (jindex cj (GetTree.K "step")) with (Ok (A:=json) jc) in H.
      cbn [bind] in H. injection H as <- <-. eauto.
  Qed.

  (* ---- leaves that own a zip member: arrays, sparse matrices (reading the member succeeded by hypothesis) ---- *)
  Lemma next_write f b st : d_next (if has_member f st then st else write_member f b st) = d_next st.
  Proof. destruct (has_member f st); reflexivity. Qed.

  Lemma arr_PV id gen mo c tok : Objs (PArr id gen mo c tok) -> PV (PArr id gen mo c tok).
  Proof.
    intros Hv st j st1 H Hb. cbn [get_state] in H. injection H as <- <-. rewrite next_write. split; [lia|].
    apply (leaf_PV (PArr id gen mo c tok) _ _ _ _ (s "_numpy.NdArrayNode") KNdArray (fun h => set_aux h (JStr (GetTree.K "numpy")))
             [Leaf (SOne (GetTree.K "content")) LBytes] (d_next st) (d_next st));
      try assumption; try reflexivity; try lia.
    - cbn; tauto.
    - intros x [<-|[]]; eauto.
    - intros rec sl m n m' H. unfold build in H.
      destruct (node_init _ _ _ _ _ _ _ _) as [[h m0]|]; [|discriminate H]. cbn [bind] in H.
      match type of H with context [jindex ?j0 (GetTree.K "type")] =>
        change (jindex j0 (GetTree.K "type")) with (Ok (A:=json) (JStr (CodecDump.K "numpy"))) in H end.
      cbn [bind] in H. change (jstr_eqb (JStr (CodecDump.K "numpy")) (GetTree.K "numpy")) with true in H. cbn iota in H.
      match type of H with context [jindex ?j0 (GetTree.K "file")] =>
        change (jindex j0 (GetTree.K "file")) with (Ok (A:=json) (JStr (npy_name id))) in H end.
      cbn [bind] in H. destruct (read_member E (JStr (npy_name id))) as [[]|]; [|discriminate H]. cbn [bind] in H.
      injection H as <- <-. eauto.
  Qed.

  Lemma sparse_PV id mo c tok : Objs (PSparse id mo c tok) -> PV (PSparse id mo c tok).
  Proof.
    intros Hv st j st1 H Hb. cbn [get_state] in H. injection H as <- <-. rewrite next_write. split; [lia|].
    apply (leaf_PV (PSparse id mo c tok) _ _ _ _ (s "_scipy.SparseMatrixNode") KSparse (fun h => set_aux h (JStr (GetTree.K "scipy")))
             [Leaf (SOne (GetTree.K "content")) LBytes] (d_next st) (d_next st));
      try assumption; try reflexivity; try lia.
    - cbn; tauto.
    - intros x [<-|[]]; eauto.
    - intros rec sl m n m' H. unfold build in H.
      destruct (node_init _ _ _ _ _ _ _ _) as [[h m0]|]; [|discriminate H]. cbn [bind] in H.
      match type of H with context [jindex ?j0 (GetTree.K "type")] =>
        change (jindex j0 (GetTree.K "type")) with (Ok (A:=json) (JStr (CodecDump.K "scipy"))) in H end.
      cbn [bind] in H. change (jstr_eqb (JStr (CodecDump.K "scipy")) (GetTree.K "scipy")) with true in H. cbn [negb] in H. cbn iota in H.
      match type of H with context [jindex ?j0 (GetTree.K "file")] =>
        change (jindex j0 (GetTree.K "file")) with (Ok (A:=json) (JStr (npz_name id))) in H end.
      cbn [bind] in H. destruct (read_member E (JStr (npz_name id))) as [[]|]; [|discriminate H]. cbn [bind] in H.
      injection H as <- <-. eauto.
  Qed.

  (* bytes / bytearray: a node with one LBytes leaf (the member is named by the uuid counter; reading it succeeded by hypothesis) *)
  Lemma bytes_PV id ba mo c tok : Objs (PBytes id ba mo c tok) -> PV (PBytes id ba mo c tok).
  Proof.
    intros Hv st j st1 H Hb. cbn [get_state] in H. destruct (fresh_uuid st) as [u st0] eqn:Hfr.
    change (if ba then CodecDump.K "BytearrayNode" else CodecDump.K "BytesNode") with (bytes_loader ba) in H. injection H as <- <-.
    assert (Hn0 : d_next (write_member (uuid_name u) (MBin, tok) st0) = d_next st).
    { unfold fresh_uuid in Hfr. injection Hfr as <- <-. reflexivity. }
    rewrite Hn0. split; [lia|].
    apply (leaf_PV (PBytes id ba mo c tok) _ _ _ _ (bytes_tag ba) (bytes_kind ba) (fun h => h)
             [Leaf (SOne (GetTree.K "content")) LBytes] (d_next st) (d_next st));
      try assumption; try reflexivity; try lia.
    - destruct ba; cbn; tauto.
    - destruct ba; reflexivity.
    - destruct ba; reflexivity.
    - intros x [<-|[]]; eauto.
    - intros rec sl m n m' H. destruct ba; unfold build, bytes_kind, bytes_tag in H;
        (destruct (node_init _ _ _ _ _ _ _ _) as [[h m0]|]; [|discriminate H]); cbn [bind] in H;
        match type of H with context [jindex ?j0 (GetTree.K "file")] =>
          change (jindex j0 (GetTree.K "file")) with (Ok (A:=json) (JStr (uuid_name u))) in H end;
        cbn [bind] in H; (destruct (read_member E (JStr (uuid_name u))) as [[]|]; [|discriminate H]); cbn [bind] in H;
        injection H as <- <-; eauto.
  Qed.

  (* ---- lists of positions built one after the other ---- *)
  Lemma gen_local l : Forall PV l ->
    forall st js st', states_of (fun x s0 => get_state D x s0) l st = Ok (js, st') -> (base <= d_next st)%Z ->
      (d_next st <= d_next st')%Z /\ length js = length l /\
      forall fuel m sls ns m', sub_gen (get_tree fuel E proto []) (combine sls js) m = Ok (ns, m') ->
        length sls = length l -> memo_lt m (d_next st) ->
        memo_lt m' (d_next st') /\ Forall (fun n => notleaf n = true) ns /\
        forall r, (forall x, In x l -> (need x <= r)%nat) -> Forall (good base Objs r) ns.
  Proof.
    induction 1 as [|x l Hx Hl IH]; intros st js st' H Hb; cbn [states_of] in H.
    - injection H as <- <-. split; [lia|]. split; [reflexivity|]. intros fuel m sls ns m' Hs Hlen Hm.
      destruct sls; [|discriminate Hlen]. cbn [combine sub_gen] in Hs. injection Hs as <- <-.
      split; [exact Hm|]. split; [constructor|]. intros r _. constructor.
    - inv_bind H. destruct (Hx _ _ _ E0 Hb) as [Hn1 Hx1]. destruct (IH _ _ _ E1 ltac:(lia)) as [Hn2 [Hlen2 IH1]].
      split; [lia|]. split; [cbn [length]; congruence|].
      intros fuel m sls ns m' Hs Hlen Hm. destruct sls as [|sl sls]; [discriminate Hlen|]. cbn [length] in Hlen.
      cbn [combine sub_gen] in Hs.
      destruct (get_tree fuel E proto [] sl m j) as [[n1 m1]|] eqn:Eg; [|discriminate Hs]. cbn [bind] in Hs.
      destruct (sub_gen _ (combine sls l0) m1) as [[ns2 m2]|] eqn:Eg2; [|discriminate Hs]. cbn [bind] in Hs.
      injection Hs as <- <-.
      destruct (Hx1 _ _ _ _ _ Eg Hm) as [Hlt1 [Hg1 Hnl1]].
      destruct (IH1 _ _ _ _ _ Eg2 ltac:(lia) Hlt1) as [Hlt2 [Hnl2 Hg2]].
      split; [exact Hlt2|]. split; [constructor; assumption|].
      intros r Hr. constructor.
      + eapply good_mono; [exact Hg1|]. apply Hr. left. reflexivity.
      + apply Hg2. intros y Hy. apply Hr. right. exact Hy.
  Qed.

  (* list / tuple / set: the Node branch (also used for the key_types list, an object the dumper creates itself) *)
  Lemma seq_local q id c mo l st0 l0 st' r :
    own id r -> (0 < id)%Z -> Forall PV l ->
    states_of (fun x s0 => get_state D x s0) l st0 = Ok (l0, st') -> (base <= d_next st0)%Z ->
    (forall x, In x l -> (need x <= r - 1)%nat) -> (1 <= r)%nat ->
    forall fuel m sl B n m',
      build E (get_tree fuel E proto) sl [] (seq_tag q) (seq_kind q) m
        (node_state c mo (seq_loader q) [(CodecDump.K "content", JArr l0)] id) = Ok (n, m') ->
      memo_lt m B -> (id < B)%Z -> (B <= d_next st0)%Z -> Out r (d_next st') n m'.
  Proof.
    intros Hown Hid Hl E0 Hb Hneed Hr fuel m sl B n m' H Hm HidB HB.
    destruct (gen_local l Hl _ _ _ E0 Hb) as [Hnext [Hlen HG0]].
    set (ld := seq_loader q) in *. set (tag := seq_tag q) in *. set (k := seq_kind q) in *.
    assert (Hbd : build E (get_tree fuel E proto) sl [] tag k m (node_state c mo ld [(CodecDump.K "content", JArr l0)] id)
            = do (h, m0) <- node_init sl k tag [] true m (node_state c mo ld [(CodecDump.K "content", JArr l0)] id) JNull;
              do (ns, m1) <- sub_list (get_tree fuel E proto) [] (GetTree.K "content") m0 l0;
              Ok (Node h (or_empty (GetTree.K "content") LEmptyList ns), m1)).
    { unfold k, tag, ld. destruct q; reflexivity. }
    rewrite Hbd, init_eq in H by (try reflexivity; lia). cbn [bind] in H. clear Hbd.
    rewrite sub_list_gen, <- combine_const in H.
    destruct (sub_gen _ _ (key id :: m)) as [[ns m1]|] eqn:Es; [|discriminate H]. cbn [bind] in H. injection H as <- <-.
    destruct (HG0 _ _ _ _ _ Es) as [Hlt [Hnl Hg]].
    { rewrite map_length. exact Hlen. }
    { apply memo_lt_cons; [lia|]. eapply memo_lt_le; eauto. }
    split; [exact Hlt|]. split; [|reflexivity].
    apply (good_own id); [exact Hown|reflexivity| |exact Hr|].
    - unfold nice. cbn [mkh h_class h_module h_kind is_jstr andb].
      assert (Hp : forallb leaf_plain (or_empty (GetTree.K "content") LEmptyList ns) = true).
      { destruct ns as [|n1 ns']; [reflexivity|]. cbn [or_empty]. apply vl_plain_of_notleaf. exact Hnl. }
      unfold k. destruct q; exact Hp.
    - destruct ns as [|n1 ns']; cbn [or_empty]; [constructor; [apply good_leaf|constructor]|]. apply Hg. exact Hneed.
  Qed.

  Lemma seq_PV q id c l : Objs (PSeq q id (s "builtins") c false l) -> Forall PV l -> PV (PSeq q id (s "builtins") c false l).
  Proof.
    intros Hv Hl st j st1 H Hb. cbn [get_state] in H.
    destruct (states_of _ l st) as [[l0 st']|] eqn:E0; [|discriminate]. cbn [bind] in H. injection H as <- <-.
    destruct (gen_local l Hl _ _ _ E0 Hb) as [Hnext _]. split; [exact Hnext|].
    pose proof (Oid _ Hv) as Hid. cbn [pid] in Hid.
    set (v := PSeq q id (s "builtins") c false l).
    change (forall fuel m sl n m', get_tree fuel E proto [] sl m
               (node_state c (s "builtins") (seq_loader q) [(CodecDump.K "content", JArr l0)] (pid v)) = Ok (n, m') ->
              memo_lt m (d_next st) -> Out (need v) (d_next st') n m').
    apply (wrap v c (s "builtins") (seq_loader q) _ (seq_tag q) (seq_kind q)); try assumption; try reflexivity;
      [destruct q; cbn; tauto|destruct q; reflexivity|].
    intros fuel m sl n m' H Hm.
    apply (seq_local q id c (s "builtins") l st l0 st' (need v) (own_obj v Hv) ltac:(lia) Hl E0 Hb) with (fuel := fuel) (m := m) (sl := sl) (B := d_next st);
      try assumption; try lia.
    - intros x Hx. pose proof (max_map_in (fun x => need x) x l Hx). cbn [need v]. cbn beta in *. lia.
    - apply need_pos.
  Qed.

  (* ---- dict family ---- *)
  Lemma kt_PV ks tvs : Forall2 (fun k tv => ktv D k = Some tv) ks tvs -> Forall (keyok D F Objs) ks ->
    Forall PV tvs /\ forall x, In x tvs -> (need x <= 1)%nat.
  Proof.
    induction 1 as [|k tv ks tvs Hk Hr IH]; intros Hkeys; [split; [constructor|intros x []]|].
    inversion Hkeys as [|? ? [sc [tv' [_ [_ [Ekt [Ho _]]]]]] Hk']; subst. rewrite Hk in Ekt. injection Ekt as <-.
    destruct (IH Hk') as [IH1 IH2]. unfold ktv in Hk. destruct (dget _ _) as [tid|]; [|discriminate]. injection Hk as <-.
    split; [constructor; [apply type_PV; exact Ho|exact IH1]|]. intros x [<-|Hx]; [cbn [need]; lia|auto].
  Qed.

  Lemma dict_local id mo c items st ktid st0 kts cont st' r :
    own id r -> (0 < id)%Z -> (id < d_next st)%Z -> (base <= d_next st)%Z ->
    Forall (keyok D F Objs) (map fst items) -> NoDup (map (fun kv => ktext (fst kv)) items) ->
    Forall (fun kv => is_prop (snd kv) = false) items -> Forall PV (map snd items) ->
    fresh st = (ktid, st0) -> key_type_states D (map fst items) = Ok kts ->
    content_of (fun x s0 => get_state D x s0) items [] st0 = Ok (cont, st') ->
    (forall kv, In kv items -> (need (snd kv) <= r - 1)%nat) -> (3 <= r)%nat ->
    (d_next st <= d_next st')%Z /\
    forall fuel m sl n m',
      build E (get_tree fuel E proto) sl [] (s "_general.DictNode") KDict m (dict_state c mo cont kts ktid id) = Ok (n, m') ->
      memo_lt m (d_next st) -> Out r (d_next st') n m'.
  Proof.
    intros Hown Hid HidB Hb Hkeys Hnd Hprops HQ Hfresh Hkts Hcont Hneed Hr.
    unfold fresh in Hfresh. injection Hfresh as <- <-.
    set (st0 := {| d_next := d_next st + 1; d_uuid := d_uuid st; d_members := d_members st; d_late := d_late st |}) in *.
    destruct (vl_content_states (fun x s0 => get_state D x s0) items [] st0 cont st') as [js [Hstates Hc]]; [| |exact Hcont|].
    { rewrite Forall_forall in *. intros kv Hkv. split; [apply Hprops; exact Hkv|].
      destruct (Hkeys (fst kv) (in_map fst _ _ Hkv)) as [sc [tv [E1 _]]]. congruence. }
    { exact Hnd. }
    cbn [app] in Hc.
    destruct (gen_local (map snd items) HQ _ _ _ Hstates ltac:(unfold st0; cbn [d_next]; lia)) as [Hnext [Hlen HG0]].
    unfold st0 in Hnext; cbn [d_next] in Hnext. split; [lia|].
    destruct (kt_states _ _ _ Hkts) as [tvs [Htv Hts]].
    destruct (kt_PV _ _ Htv Hkeys) as [HQt Hnt].
    intros fuel m sl n m' H Hm.
    set (j := dict_state c mo cont kts (d_next st) id) in *.
    assert (Hbd : forall rec, build E rec sl [] (s "_general.DictNode") KDict m j
            = do (h, m0) <- node_init sl KDict (s "_general.DictNode") [] true m j JNull;
              do (ktn, m1) <- rec [] (SOne (GetTree.K "key_types")) m0 (list_state kts (d_next st));
              do (ns, m2) <- sub_dict rec [] (GetTree.K "content") m1 cont;
              Ok (Node h (ktn :: or_empty (GetTree.K "content") LEmptyDict ns), m2)).
    { intros rec. reflexivity. }
    rewrite Hbd in H. unfold j, dict_state in H. rewrite init_eq in H by (try reflexivity; lia). cbn [bind] in H. clear Hbd.
    destruct (get_tree fuel E proto [] (SOne (GetTree.K "key_types")) (key id :: m) (list_state kts (d_next st))) as [[ktn m1]|] eqn:Ekt;
      [|discriminate H]. cbn [bind] in H.
    (* the key_types list *)
    assert (Hmem2 : memo_mem (key (d_next st)) (key id :: m) = false).
    { apply (memo_lt_fresh _ (d_next st)); [|lia]. apply memo_lt_cons; [lia|exact Hm]. }
    destruct fuel as [|fuel]; [discriminate Ekt|].
    unfold list_state, proto in Ekt.
    rewrite (gt_step E Hreg fuel (SOne (GetTree.K "key_types")) (key id :: m) _ _ _ _ (d_next st) (s "_general.ListNode") KList) in Ekt;
      [|reflexivity|cbn; tauto|reflexivity]. rewrite Hmem2 in Ekt.
    assert (Hx1 : own (d_next st) 2) by (right; lia).
    assert (Hx3 : (base <= d_next st0)%Z) by (unfold st0; cbn [d_next]; lia).
    destruct (seq_local QList (d_next st) (s "list") (s "builtins") tvs st0 kts st0 2 Hx1 ltac:(lia) HQt (Hts st0) Hx3
                ltac:(intros x Hx; cbn; apply Hnt; exact Hx) ltac:(lia)
                fuel (key id :: m) (SOne (GetTree.K "key_types")) (d_next st0) ktn m1 Ekt) as [Hklt [Hkg Hknl]].
    { unfold st0; cbn [d_next]. apply memo_lt_cons; [lia|]. eapply memo_lt_le; [|exact Hm]. lia. }
    { unfold st0; cbn [d_next]. lia. }
    { lia. }
    (* the values *)
    rewrite sub_dict_gen, Hc, map_combine_fst in H.
    set (sls := map (fun t0 => SKey (GetTree.K "content") t0) (map (fun kv : dkey * pval => ktext (fst kv)) items)) in H.
    destruct (sub_gen _ (combine sls js) m1) as [[ns m2]|] eqn:Es; [|discriminate H]. cbn [bind] in H. injection H as <- <-.
    destruct (HG0 _ _ _ _ _ Es) as [Hlt [Hnl Hg]].
    { unfold sls. rewrite !map_length. reflexivity. }
    { exact Hklt. }
    split; [exact Hlt|]. split; [|reflexivity].
    apply (good_own id); [exact Hown|reflexivity| |lia|].
    - unfold nice. cbn [mkh h_class h_module h_kind is_jstr andb forallb]. rewrite andb_true_r.
      replace (leaf_plain ktn) with true by (destruct ktn; [reflexivity|reflexivity|discriminate Hknl]). cbn [andb].
      destruct ns as [|n1 ns']; [reflexivity|]. cbn [or_empty]. apply vl_plain_of_notleaf. exact Hnl.
    - constructor; [eapply good_mono; [exact Hkg|lia]|].
      destruct ns as [|n1 ns']; cbn [or_empty]; [constructor; [apply good_leaf|constructor]|]. apply Hg.
      intros x Hx. apply in_map_iff in Hx. destruct Hx as [kv [<- Hkv]]. apply Hneed. exact Hkv.
  Qed.

  Lemma dict_PV id mo c items : Objs (PDict id mo c items) -> items_ok D F Objs items ->
    Forall PV (map snd items) -> PV (PDict id mo c items).
  Proof.
    intros Hv [Hk [Hnd [Hdi Hpr]]] HQ st j st1 H Hb. cbn [get_state] in H.
    destruct (fresh st) as [ktid st0] eqn:Hfr.
    destruct (key_type_states D (map fst items)) as [kts|] eqn:Ekt; [|discriminate]. cbn [bind] in H.
    destruct (content_of _ items [] st0) as [[cont st']|] eqn:Ec; [|discriminate]. cbn [bind] in H. injection H as <- <-.
    pose proof (Oid _ Hv) as Hid. cbn [pid] in Hid.
    set (v := PDict id mo c items) in *.
    destruct (dict_local id mo c items st ktid st0 kts cont st' (need v) (own_obj v Hv) ltac:(lia) ltac:(lia) Hb Hk Hnd Hpr HQ Hfr Ekt Ec)
      as [Hnext Hnode].
    { intros kv Hkv. pose proof (max_map_in (fun kv => need (snd kv)) kv items Hkv). cbn [need v]. cbn beta in *. lia. }
    { cbn [need v]. lia. }
    split; [exact Hnext|]. unfold dict_state in *.
    change id with (pid v).
    apply (wrap v c mo _ _ (s "_general.DictNode") KDict (d_next st) (d_next st')); try assumption; try reflexivity; try (cbn; tauto).
  Qed.

  Lemma defdict_PV id f items :
    Objs (PDefDict id (s "collections") (s "defaultdict") f items) -> items_ok D F Objs items ->
    PV f -> Forall PV (map snd items) -> PV (PDefDict id (s "collections") (s "defaultdict") f items).
  Proof.
    intros Hv [Hk [Hnd [Hdi Hpr]]] Hf HQ st j st2 H Hb. cbn [get_state] in H.
    destruct (fresh st) as [did st0] eqn:Hfr0. destruct (fresh st0) as [ktid st0'] eqn:Hfr.
    destruct (key_type_states D (map fst items)) as [kts|] eqn:Ekt; [|discriminate]. cbn [bind] in H.
    destruct (content_of _ items [] st0') as [[cont st1]|] eqn:Ec; [|discriminate]. cbn [bind] in H.
    destruct (get_state D f st1) as [[fac st']|] eqn:Ef; [|discriminate]. cbn [bind] in H. injection H as <- <-.
    pose proof (Oid _ Hv) as Hid. cbn [pid] in Hid.
    assert (Hd : did = d_next st /\ d_next st0 = (d_next st + 1)%Z).
    { unfold fresh in Hfr0. injection Hfr0 as <- <-. cbn. auto. }
    destruct Hd as [-> Hn0].
    set (r := (3 + max_map (fun kv : dkey * pval => need (snd kv)) items)%nat).
    assert (Hy1 : own (d_next st) r) by (right; lia).
    destruct (dict_local (d_next st) (s "builtins") (s "dict") items st0 ktid st0' kts cont st1 r Hy1 ltac:(lia) ltac:(lia) ltac:(lia)
                Hk Hnd Hpr HQ Hfr Ekt Ec) as [Hnext1 Hnode].
    { intros kv Hkv. pose proof (max_map_in (fun kv => need (snd kv)) kv items Hkv). unfold r. cbn beta in *. lia. }
    { unfold r. lia. }
    destruct (Hf _ _ _ Ef ltac:(lia)) as [Hnext2 Hfq].
    split; [lia|].
    set (v := PDefDict id (s "collections") (s "defaultdict") f items) in *.
    change id with (pid v).
    apply (wrap v _ _ _ _ (s "_general.DefaultDictNode") KDefaultDict (d_next st) (d_next st')); try assumption; try reflexivity; try lia; try (cbn; tauto).
    intros fuel m sl n m' H Hm.
    set (mj := dict_state (CodecDump.K "dict") (CodecDump.K "builtins") cont kts ktid (d_next st)) in *.
    set (j := node_state (s "defaultdict") (s "collections") (CodecDump.K "DefaultDictNode")
                [(CodecDump.K "content", JObj [(CodecDump.K "main", mj); (CodecDump.K "default_factory", fac)])] (pid v)) in *.
    assert (Hbd : forall rec, build E rec sl [] (s "_general.DefaultDictNode") KDefaultDict m j
            = do (h, m0) <- node_init sl KDefaultDict (s "_general.DefaultDictNode") [] true m j JNull;
              do (a, m1) <- rec [] (SOne (GetTree.K "main")) m0 mj;
              do (b, m2) <- rec [] (SOne (GetTree.K "default_factory")) m1 fac;
              Ok (Node h [a; b], m2)).
    { intros rec. reflexivity. }
    rewrite Hbd in H. unfold j in H. rewrite init_eq in H by (try reflexivity; cbn [pid v]; lia). cbn [bind] in H. clear Hbd.
    cbn [pid v] in H.
    assert (Hm0 : memo_lt (key id :: m) (d_next st)) by (apply memo_lt_cons; [lia|exact Hm]).
    destruct (get_tree fuel E proto [] (SOne (GetTree.K "main")) (key id :: m) mj) as [[a m1]|] eqn:Ea; [|discriminate H]. cbn [bind] in H.
    destruct (get_tree fuel E proto [] (SOne (GetTree.K "default_factory")) m1 fac) as [[b m2]|] eqn:Eb; [|discriminate H]. cbn [bind] in H.
    injection H as <- <-.
    destruct fuel as [|fuel]; [discriminate Ea|].
    unfold mj, dict_state, proto in Ea.
    rewrite (gt_step E Hreg fuel (SOne (GetTree.K "main")) (key id :: m) _ _ _ _ (d_next st) (s "_general.DictNode") KDict) in Ea;
      [|reflexivity|cbn; tauto|reflexivity].
    rewrite (memo_lt_fresh _ (d_next st) (d_next st) Hm0 ltac:(lia)) in Ea.
    destruct (Hnode fuel (key id :: m) (SOne (GetTree.K "main")) a m1 Ea) as [Halt [Hag Hanl]].
    { eapply memo_lt_le; [|exact Hm0]. lia. }
    destruct (Hfq _ _ _ _ _ Eb Halt) as [Hblt [Hbg Hbnl]].
    split; [exact Hblt|]. split; [|reflexivity].
    apply (good_own (pid v)); [apply own_obj; exact Hv|reflexivity| |apply need_pos|].
    - unfold nice. cbn [mkh h_class h_module h_kind is_jstr andb]. apply vl_plain_of_notleaf. constructor; [exact Hanl|constructor; [exact Hbnl|constructor]].
    - cbn [need v]. constructor; [|constructor; [|constructor]].
      + eapply good_mono; [exact Hag|]. unfold r. lia.
      + eapply good_mono; [exact Hbg|]. lia.
  Qed.

  (* ---- values whose node has exactly one child node ---- *)
  Lemma single_PV v x c mo l (flds : json -> list (pstr * json)) tag k slot :
    Objs v -> PV x -> (need x < need v)%nat ->
    In (l, tag) frag_loaders -> kind_of_class tag = Some k ->
    (forall jx, dget (s "__id__") (flds jx) = None) ->
    (forall st, get_state D v st = do (jx, st1) <- get_state D x st; Ok (node_state c mo l (flds jx) (pid v), st1)) ->
    (forall rec sl m jx, (exists kv, jx = JObj kv) ->
                         build E rec sl [] tag k m (node_state c mo l (flds jx) (pid v))
                         = do (h, m0) <- node_init sl k tag [] true m (node_state c mo l (flds jx) (pid v)) JNull;
                           do (n, m1) <- rec [] (SOne slot) m0 jx; Ok (Node h [n], m1)) ->
    (forall sl ns, Forall (fun n => notleaf n = true) ns -> nice (mkh sl k tag (pid v) c mo JNull) ns = true) ->
    PV v.
  Proof.
    intros Hv Hx Hnd Hl Hk Hf Hget Hbuild0 Hnice st j st' H Hb. rewrite Hget in H.
    destruct (get_state D x st) as [[jx st1]|] eqn:Ex; [|discriminate]. cbn [bind] in H. injection H as <- <-.
    assert (Hbuild : forall rec sl m, build E rec sl [] tag k m (node_state c mo l (flds jx) (pid v))
                         = do (h, m0) <- node_init sl k tag [] true m (node_state c mo l (flds jx) (pid v)) JNull;
                           do (n, m1) <- rec [] (SOne slot) m0 jx; Ok (Node h [n], m1)).
    { intros rec sl m. apply Hbuild0. destruct (root_fields _ _ _ _ _ Ex) as [kv [-> _]]. eauto. }
    destruct (Hx _ _ _ Ex Hb) as [Hnext HQx]. split; [exact Hnext|].
    pose proof (Oid _ Hv) as Hid.
    apply (wrap v c mo l (flds jx) tag k (d_next st) (d_next st1)); try assumption; [apply Hf|].
    intros fuel m sl n m' H Hm. rewrite Hbuild, init_eq in H by (try apply Hf; lia). cbn [bind] in H.
    destruct (get_tree fuel E proto [] (SOne slot) (key (pid v) :: m) jx) as [[n1 m1]|] eqn:Eg; [|discriminate H]. cbn [bind] in H.
    injection H as <- <-.
    destruct (HQx _ _ _ _ _ Eg) as [Hlt [Hg Hnl]]; [apply memo_lt_cons; [lia|exact Hm]|].
    split; [exact Hlt|]. split; [|reflexivity].
    apply (good_own (pid v)); [apply own_obj; exact Hv|reflexivity| |apply need_pos|].
    - apply Hnice. constructor; [exact Hnl|constructor].
    - constructor; [|constructor]. eapply good_mono; [exact Hg|lia].
  Qed.

  (* ---- values whose node has a fixed list of child nodes ---- *)
  Lemma multi_PV v xs sls c mo l (flds : list json -> list (pstr * json)) tag k :
    Objs v -> Forall PV xs -> length sls = length xs ->
    (forall x, In x xs -> (need x < need v)%nat) ->
    In (l, tag) frag_loaders -> kind_of_class tag = Some k ->
    (forall js, dget (s "__id__") (flds js) = None) ->
    (forall st, get_state D v st = do (js, st1) <- states_of (fun x s0 => get_state D x s0) xs st; Ok (node_state c mo l (flds js) (pid v), st1)) ->
    (forall rec sl m js, length js = length xs ->
       build E rec sl [] tag k m (node_state c mo l (flds js) (pid v))
       = do (h, m0) <- node_init sl k tag [] true m (node_state c mo l (flds js) (pid v)) JNull;
         do (ns, m1) <- sub_gen (rec []) (combine sls js) m0; Ok (Node h ns, m1)) ->
    (forall sl ns, Forall (fun n => notleaf n = true) ns -> nice (mkh sl k tag (pid v) c mo JNull) ns = true) ->
    PV v.
  Proof.
    intros Hv Hxs Hlen Hsz Hl Hk Hf Hget Hbuild Hnice st j st' H Hb. rewrite Hget in H.
    destruct (states_of _ xs st) as [[js st1]|] eqn:Ex; [|discriminate]. cbn [bind] in H. injection H as <- <-.
    destruct (gen_local xs Hxs _ _ _ Ex Hb) as [Hnext [Hjl HG0]]. split; [exact Hnext|].
    pose proof (Oid _ Hv) as Hid.
    apply (wrap v c mo l (flds js) tag k (d_next st) (d_next st1)); try assumption; [apply Hf|].
    intros fuel m sl n m' H Hm. rewrite (Hbuild _ _ _ _ Hjl), init_eq in H by (try apply Hf; lia). cbn [bind] in H.
    destruct (sub_gen _ (combine sls js) (key (pid v) :: m)) as [[ns m1]|] eqn:Eg; [|discriminate H]. cbn [bind] in H.
    injection H as <- <-.
    destruct (HG0 _ _ _ _ _ Eg Hlen) as [Hlt [Hnl Hg]]; [apply memo_lt_cons; [lia|exact Hm]|].
    split; [exact Hlt|]. split; [|reflexivity].
    apply (good_own (pid v)); [apply own_obj; exact Hv|reflexivity|apply Hnice; exact Hnl|apply need_pos|].
    apply Hg. intros x Hx. specialize (Hsz x Hx). lia.
  Qed.

  Lemma nice_plain sl k tag id c mo ns :
    match k with KJson | KSlice | KFunction | KFunctionV0 | KMethod | KRandomGeneratorV0 | KDict => False | _ => True end ->
    Forall (fun n => notleaf n = true) ns -> nice (mkh sl k tag id c mo JNull) ns = true.
  Proof.
    intros Hk Hns. unfold nice. cbn [mkh h_class h_module h_kind is_jstr andb].
    destruct k; try contradiction; apply vl_plain_of_notleaf; exact Hns.
  Qed.

  Ltac two_states := intros st0; cbn [get_state states_of];
    repeat match goal with |- context [get_state D ?x ?s0] => destruct (get_state D x s0) as [[? ?]|]; cbn [bind]; [|reflexivity] end; reflexivity.

  Lemma masked_PV id d k : Objs (PMasked id (s "numpy.ma") (s "MaskedArray") d k) -> PV d -> PV k ->
    PV (PMasked id (s "numpy.ma") (s "MaskedArray") d k).
  Proof.
    intros Hv Hd Hk0.
    apply (multi_PV (PMasked id (s "numpy.ma") (s "MaskedArray") d k) [d; k] [SOne (GetTree.K "data"); SOne (GetTree.K "mask")]
             (s "MaskedArray") (s "numpy.ma") (CodecDump.K "MaskedArrayNode")
             (fun js => match js with [jd; jm] => [(CodecDump.K "content", JObj [(CodecDump.K "data", jd); (CodecDump.K "mask", jm)])] | _ => [] end)
             (s "_numpy.MaskedArrayNode") KMaskedArray); try assumption; try reflexivity.
    - constructor; [exact Hd|constructor; [exact Hk0|constructor]].
    - intros x [<-|[<-|[]]]; cbn [need]; lia.
    - cbn; tauto.
    - intros [|jd [|jm [|? ?]]]; reflexivity.
    - two_states.
    - intros rec sl m [|jd [|jm [|? ?]]] Hl; try discriminate Hl. unfold build, content_child.
      destruct (node_init _ _ _ _ _ _ _ _) as [[h m0]|]; [|reflexivity]. cbn [bind combine sub_gen].
      change (jindex (node_state (s "MaskedArray") (s "numpy.ma") (CodecDump.K "MaskedArrayNode")
                [(CodecDump.K "content", JObj [(CodecDump.K "data", jd); (CodecDump.K "mask", jm)])] (pid (PMasked id (s "numpy.ma") (s "MaskedArray") d k))) (GetTree.K "content"))
        with (Ok (A:=json) (JObj [(CodecDump.K "data", jd); (CodecDump.K "mask", jm)])). cbn [bind].
      change (jindex (JObj [(CodecDump.K "data", jd); (CodecDump.K "mask", jm)]) (GetTree.K "data")) with (Ok (A:=json) jd).
      change (jindex (JObj [(CodecDump.K "data", jd); (CodecDump.K "mask", jm)]) (GetTree.K "mask")) with (Ok (A:=json) jm). cbn [bind].
      destruct (rec [] (SOne (GetTree.K "data")) m0 jd) as [[a m1]|]; [|reflexivity]. cbn [bind].
      destruct (rec [] (SOne (GetTree.K "mask")) m1 jm) as [[b m2]|]; reflexivity.
    - intros sl ns. apply nice_plain. exact I.
  Qed.

  Lemma randgen_PV id mo c bg ss : Objs (PRandGen id mo c bg ss) -> PV bg -> PV ss -> PV (PRandGen id mo c bg ss).
  Proof.
    intros Hv Hb0 Hs0.
    apply (multi_PV (PRandGen id mo c bg ss) [bg; ss] [SOne (GetTree.K "bit_generator_state"); SOne (GetTree.K "seed_seq_state")]
             c mo (CodecDump.K "RandomGeneratorNode")
             (fun js => match js with [jb; js0] => [(CodecDump.K "content", JObj [(CodecDump.K "bit_generator", jb); (CodecDump.K "seed_seq", js0)])] | _ => [] end)
             (s "_numpy.RandomGeneratorNode") KRandomGenerator); try assumption; try reflexivity.
    - constructor; [exact Hb0|constructor; [exact Hs0|constructor]].
    - intros x [<-|[<-|[]]]; cbn [need]; lia.
    - cbn; tauto.
    - intros [|jd [|jm [|? ?]]]; reflexivity.
    - two_states.
    - intros rec sl m [|jd [|jm [|? ?]]] Hl; try discriminate Hl. unfold build, content_child.
      destruct (node_init _ _ _ _ _ _ _ _) as [[h m0]|]; [|reflexivity]. cbn [bind combine sub_gen].
      change (jindex (node_state c mo (CodecDump.K "RandomGeneratorNode")
                [(CodecDump.K "content", JObj [(CodecDump.K "bit_generator", jd); (CodecDump.K "seed_seq", jm)])] (pid (PRandGen id mo c bg ss))) (GetTree.K "content"))
        with (Ok (A:=json) (JObj [(CodecDump.K "bit_generator", jd); (CodecDump.K "seed_seq", jm)])). cbn [bind].
      change (jindex (JObj [(CodecDump.K "bit_generator", jd); (CodecDump.K "seed_seq", jm)]) (GetTree.K "bit_generator")) with (Ok (A:=json) jd).
      change (jindex (JObj [(CodecDump.K "bit_generator", jd); (CodecDump.K "seed_seq", jm)]) (GetTree.K "seed_seq")) with (Ok (A:=json) jm). cbn [bind].
      destruct (rec [] (SOne (GetTree.K "bit_generator_state")) m0 jd) as [[a m1]|]; [|reflexivity]. cbn [bind].
      destruct (rec [] (SOne (GetTree.K "seed_seq_state")) m1 jm) as [[b m2]|]; reflexivity.
    - intros sl ns. apply nice_plain. exact I.
  Qed.

  Lemma randstate_PV id mo c x : Objs (PRandState id mo c x) -> PV x -> PV (PRandState id mo c x).
  Proof.
    intros Hv Hx.
    apply (single_PV (PRandState id mo c x) x c mo (CodecDump.K "RandomStateNode") (fun jx => [(CodecDump.K "content", jx)])
             (s "_numpy.RandomStateNode") KRandomState (GetTree.K "content")); try assumption; try reflexivity;
      try (cbn [need]; lia); [cbn; tauto|].
    intros sl ns. apply nice_plain. exact I.
  Qed.

  Lemma partial_PV id f a k n : Objs (PPartial id (s "functools") (s "partial") f a k n) ->
    PV f -> PV a -> PV k -> PV n -> PV (PPartial id (s "functools") (s "partial") f a k n).
  Proof.
    intros Hv Hf Ha Hk0 Hn0.
    apply (multi_PV (PPartial id (s "functools") (s "partial") f a k n) [f; a; k; n]
             [SOne (GetTree.K "func"); SOne (GetTree.K "args"); SOne (GetTree.K "kwds"); SOne (GetTree.K "namespace")]
             (s "partial") (s "functools") (CodecDump.K "PartialNode")
             (fun js => match js with [jf; ja; jk; jn] =>
                          [(CodecDump.K "content", JObj [(CodecDump.K "func", jf); (CodecDump.K "args", ja); (CodecDump.K "kwds", jk); (CodecDump.K "namespace", jn)])]
                        | _ => [] end)
             (s "_general.PartialNode") KPartial); try assumption; try reflexivity.
    - constructor; [exact Hf|constructor; [exact Ha|constructor; [exact Hk0|constructor; [exact Hn0|constructor]]]].
    - intros x [<-|[<-|[<-|[<-|[]]]]]; cbn [need]; lia.
    - cbn; tauto.
    - intros [|j1 [|j2 [|j3 [|j4 [|? ?]]]]]; reflexivity.
    - two_states.
    - intros rec sl m [|j1 [|j2 [|j3 [|j4 [|? ?]]]]] Hl; try discriminate Hl. unfold build, content_child.
      destruct (node_init _ _ _ _ _ _ _ _) as [[h m0]|]; [|reflexivity]. cbn [bind combine sub_gen].
      set (cj := JObj [(CodecDump.K "func", j1); (CodecDump.K "args", j2); (CodecDump.K "kwds", j3); (CodecDump.K "namespace", j4)]).
      change (jindex (node_state (s "partial") (s "functools") (CodecDump.K "PartialNode") [(CodecDump.K "content", cj)]
                (pid (PPartial id (s "functools") (s "partial") f a k n))) (GetTree.K "content")) with (Ok (A:=json) cj). cbn [bind].
      change (jindex cj (GetTree.K "func")) with (Ok (A:=json) j1). change (jindex cj (GetTree.K "args")) with (Ok (A:=json) j2).
      change (jindex cj (GetTree.K "kwds")) with (Ok (A:=json) j3). change (jindex cj (GetTree.K "namespace")) with (Ok (A:=json) j4). cbn [bind].
      destruct (rec [] (SOne (GetTree.K "func")) m0 j1) as [[n1 m1]|]; [|reflexivity]. cbn [bind].
      destruct (rec [] (SOne (GetTree.K "args")) m1 j2) as [[n2 m2]|]; [|reflexivity]. cbn [bind].
      destruct (rec [] (SOne (GetTree.K "kwds")) m2 j3) as [[n3 m3]|]; [|reflexivity]. cbn [bind].
      destruct (rec [] (SOne (GetTree.K "namespace")) m3 j4) as [[n4 m4]|]; reflexivity.
    - intros sl ns. apply nice_plain. exact I.
  Qed.

  Lemma opfunc_PV id c attrs : Objs (POpFunc id c attrs) -> PV attrs -> PV (POpFunc id c attrs).
  Proof.
    intros Hv Ha.
    apply (single_PV (POpFunc id c attrs) attrs c (s "operator") (CodecDump.K "OperatorFuncNode") (fun jx => [(CodecDump.K "attrs", jx)])
             (s "_general.OperatorFuncNode") KOperatorFunc (GetTree.K "attrs")); try assumption; try reflexivity;
      try (cbn [need]; lia); [cbn; tauto|].
    intros sl ns. apply nice_plain. exact I.
  Qed.

  (* user objects on the generic object path *)
  Lemma objstate_PV id mo c x : Objs (PObj id mo c HKNone [] OKState x) -> PV x -> PV (PObj id mo c HKNone [] OKState x).
  Proof.
    intros Hv Hx.
    apply (single_PV (PObj id mo c HKNone [] OKState x) x c mo (CodecDump.K "ObjectNode") (fun jx => [(CodecDump.K "content", jx)])
             (s "_general.ObjectNode") KObject (GetTree.K "attrs")); try assumption; try reflexivity;
      try (cbn [need]; lia); [cbn; tauto| |].
    { intros rec sl m jx [kv ->]. reflexivity. }
    intros sl ns. apply nice_plain. exact I.
  Qed.

  Lemma objreduce_PV id mo c x : Objs (PObj id mo c HKNone [] OKReduce x) -> PV x -> PV (PObj id mo c HKNone [] OKReduce x).
  Proof.
    intros Hv Hx.
    apply (single_PV (PObj id mo c HKNone [] OKReduce x) x c mo (CodecDump.K "ConstructorFromReduceNode") (fun jx => [(CodecDump.K "content", jx)])
             (s "_general.ConstructorFromReduceNode") KCtorReduce (GetTree.K "content")); try assumption; try reflexivity;
      try (cbn [need]; lia); [cbn; tauto|].
    intros sl ns. apply nice_plain. exact I.
  Qed.

  Lemma objnostate_PV id mo c : Objs (PObj id mo c HKNone [] OKNoState pnone) -> PV (PObj id mo c HKNone [] OKNoState pnone).
  Proof.
    intros Hv st j st' H Hb. cbn [get_state] in H. injection H as <- <-. split; [lia|].
    apply (leaf_PV (PObj id mo c HKNone [] OKNoState pnone) _ _ _ _ (s "_general.ObjectNode") KObject (fun h => h)
             [Leaf (SOne (GetTree.K "attrs")) LNone] (d_next st) (d_next st));
      try assumption; try reflexivity; try lia.
    - cbn; tauto.
    - intros x [<-|[]]. eauto.
    - intros rec sl m n m' H. unfold build in H.
      destruct (node_init _ _ _ _ _ _ _ _) as [[h m0]|]; [|discriminate H]. cbn [bind] in H. injection H as <- <-. eauto.
  Qed.

  (* a dtype travels as an empty carrier array the dumper creates *)
  Lemma dtype_PV id tok : Objs (PDType id tok) -> PV (PDType id tok).
  Proof.
    intros Hv st j st1 H Hb. cbn [get_state] in H. destruct (fresh st) as [tid st0] eqn:Hfr. injection H as <- <-.
    assert (Hd : tid = d_next st /\ d_next st0 = (d_next st + 1)%Z).
    { unfold fresh in Hfr. injection Hfr as <- <-. cbn. auto. }
    destruct Hd as [-> Hn0]. set (tid := d_next st) in *.
    set (v := PDType id tok). set (f := npy_name tid).
    rewrite next_write. split; [lia|].
    pose proof (Oid _ Hv) as Hid. cbn [pid] in Hid.
    set (ji := node_state (CodecDump.K "ndarray") (CodecDump.K "numpy") (CodecDump.K "NdArrayNode")
                 [(CodecDump.K "type", JStr (CodecDump.K "numpy")); (CodecDump.K "file", JStr f)] tid).
    change (forall fuel m sl n m', get_tree fuel E proto [] sl m (node_state (CodecDump.K "dtype") (CodecDump.K "numpy") (CodecDump.K "DTypeNode")
                  [(CodecDump.K "content", ji)] (pid v)) = Ok (n, m') -> memo_lt m tid -> Out (need v) (d_next st0) n m').
    apply (wrap v _ _ _ _ (s "_numpy.DTypeNode") KDType tid (d_next st0)); try assumption; try reflexivity; try (unfold tid; lia); try (cbn; tauto).
    intros fuel m sl n m' H Hm. cbn [pid v] in H.
    set (jv := node_state (CodecDump.K "dtype") (CodecDump.K "numpy") (CodecDump.K "DTypeNode") [(CodecDump.K "content", ji)] id) in *.
    assert (Hbd : forall rec, build E rec sl [] (s "_numpy.DTypeNode") KDType m jv
            = do (h, m0) <- node_init sl KDType (s "_numpy.DTypeNode") [] true m jv JNull;
              do (n, m1) <- rec [] (SOne (GetTree.K "content")) m0 ji; Ok (Node h [n], m1)).
    { intros rec. reflexivity. }
    rewrite Hbd in H. unfold jv in H. rewrite init_eq in H by (try reflexivity; lia). cbn [bind] in H. clear Hbd.
    assert (Hm0 : memo_lt (key id :: m) tid) by (apply memo_lt_cons; [unfold tid; lia|exact Hm]).
    destruct (get_tree fuel E proto [] (SOne (GetTree.K "content")) (key id :: m) ji) as [[inner m1]|] eqn:Ei; [|discriminate H].
    cbn [bind] in H. injection H as <- <-.
    destruct fuel as [|fuel]; [discriminate Ei|].
    unfold ji, proto in Ei.
    rewrite (gt_step E Hreg fuel (SOne (GetTree.K "content")) (key id :: m) _ _ _ _ tid (s "_numpy.NdArrayNode") KNdArray) in Ei;
      [|reflexivity|cbn; tauto|reflexivity].
    rewrite (memo_lt_fresh _ tid tid Hm0 ltac:(lia)) in Ei.
    fold ji in Ei.
    assert (Hbi : build E (get_tree fuel E (JInt (e_cur E))) (SOne (GetTree.K "content")) [] (s "_numpy.NdArrayNode") KNdArray (key id :: m) ji
            = do (h, m0) <- node_init (SOne (GetTree.K "content")) KNdArray (s "_numpy.NdArrayNode") [] true (key id :: m) ji JNull;
              do _ <- read_member E (JStr f); Ok (Node (set_aux h (JStr (GetTree.K "numpy"))) [Leaf (SOne (GetTree.K "content")) LBytes], m0)).
    { unfold build. destruct (node_init _ _ _ _ _ _ _ _) as [[h m0]|]; reflexivity. }
    rewrite Hbi in Ei. unfold ji in Ei. rewrite init_eq in Ei by (try reflexivity; unfold tid; lia). cbn [bind] in Ei. clear Hbi.
    destruct (read_member E (JStr f)) as [[]|]; [|discriminate Ei]. cbn [bind] in Ei. injection Ei as <- <-.
    split; [apply memo_lt_cons; [unfold tid; lia|]; apply memo_lt_cons; [lia|]; eapply memo_lt_le; [|exact Hm]; unfold tid; lia|].
    split; [|reflexivity].
    apply (good_own (pid v)); [apply own_obj; exact Hv|reflexivity|reflexivity|apply need_pos|].
    constructor; [|constructor]. cbn [need v].
    apply (good_alloc base Objs _ _ _ tid); [unfold tid; lia|reflexivity|reflexivity|lia|].
    constructor; [apply good_leaf|constructor].
  Qed.

  (* ================= objects the dumper creates itself: closures, one run at a time ================= *)
  Definition PVC (r : nat) (c : clo) : Prop :=
    forall st j st', c st = Ok (j, st') -> (base <= d_next st)%Z ->
      (d_next st <= d_next st')%Z /\
      forall fuel m sl n m', get_tree fuel E proto [] sl m j = Ok (n, m') -> memo_lt m (d_next st) -> Out r (d_next st') n m'.

  Lemma PVC_mono r r' c : (r <= r')%nat -> PVC r c -> PVC r' c.
  Proof.
    intros Hr H st j st' Hc Hb. destruct (H st j st' Hc Hb) as [H1 H2]. split; [exact H1|].
    intros fuel m sl n m' Hg Hm. destruct (H2 _ _ _ _ _ Hg Hm) as [A [B C]]. split; [exact A|]. split; [|exact C]. eapply good_mono; eauto.
  Qed.
  Lemma PV_PVC v : PV v -> PVC (need v) (fun s0 => get_state D v s0).
  Proof. intros H st j st' Hc Hb. exact (H st j st' Hc Hb). Qed.

  Lemma gen_localC r cs : Forall (PVC r) cs ->
    forall st js st', run_all cs st = Ok (js, st') -> (base <= d_next st)%Z ->
      (d_next st <= d_next st')%Z /\ length js = length cs /\
      forall fuel m sls ns m', sub_gen (get_tree fuel E proto []) (combine sls js) m = Ok (ns, m') ->
        length sls = length cs -> memo_lt m (d_next st) ->
        memo_lt m' (d_next st') /\ Forall (fun n => notleaf n = true) ns /\ Forall (good base Objs r) ns.
  Proof.
    induction 1 as [|c cs Hx Hl IH]; intros st js st' H Hb; cbn [run_all] in H.
    - injection H as <- <-. split; [lia|]. split; [reflexivity|]. intros fuel m sls ns m' Hs Hlen Hm.
      destruct sls; [|discriminate Hlen]. cbn [combine sub_gen] in Hs. injection Hs as <- <-.
      split; [exact Hm|]. split; constructor.
    - inv_bind H. destruct (Hx _ _ _ E0 Hb) as [Hn1 Hx1]. destruct (IH _ _ _ E1 ltac:(lia)) as [Hn2 [Hlen2 IH1]].
      split; [lia|]. split; [cbn [length]; congruence|].
      intros fuel m sls ns m' Hs Hlen Hm. destruct sls as [|sl sls]; [discriminate Hlen|]. cbn [length] in Hlen.
      cbn [combine sub_gen] in Hs.
      destruct (get_tree fuel E proto [] sl m j) as [[n1 m1]|] eqn:Eg; [|discriminate Hs]. cbn [bind] in Hs.
      destruct (sub_gen _ (combine sls l) m1) as [[ns2 m2]|] eqn:Eg2; [|discriminate Hs]. cbn [bind] in Hs.
      injection Hs as <- <-.
      destruct (Hx1 _ _ _ _ _ Eg Hm) as [Hlt1 [Hg1 Hnl1]].
      destruct (IH1 _ _ _ _ _ Eg2 ltac:(lia) Hlt1) as [Hlt2 [Hnl2 Hg2]].
      split; [exact Hlt2|]. split; constructor; assumption.
  Qed.

  (* a fresh list / tuple the dumper creates around the results of closures *)
  Lemma fresh_seq_local q c r cs st items st1 :
    Forall (PVC r) cs -> (base <= d_next st)%Z -> (0 < base)%Z ->
    run_all cs (snd (fresh st)) = Ok (items, st1) ->
    (d_next st <= d_next st1)%Z /\
    forall fuel m sl n m',
      get_tree fuel E proto [] sl m (node_state c (s "builtins") (seq_loader q) [(CodecDump.K "content", JArr items)] (d_next st)) = Ok (n, m') ->
      memo_lt m (d_next st) -> Out (S r) (d_next st1) n m'.
  Proof.
    intros Hcs Hb Hb0 Hrun. set (lid := d_next st) in *. set (st0 := snd (fresh st)) in *.
    assert (Hna : d_next st0 = (lid + 1)%Z) by reflexivity.
    destruct (gen_localC r cs Hcs _ _ _ Hrun ltac:(lia)) as [Hnext [Hlen HG0]]. split; [lia|].
    intros fuel m sl n m' H Hm. destruct fuel as [|fuel]; [discriminate H|]. unfold proto in H.
    rewrite (gt_step E Hreg fuel sl m _ _ _ _ lid (seq_tag q) (seq_kind q)) in H; [|reflexivity|destruct q; cbn; tauto|destruct q; reflexivity].
    rewrite (memo_lt_fresh _ lid lid Hm ltac:(lia)) in H.
    set (ld := seq_loader q) in *. set (tag := seq_tag q) in *. set (k := seq_kind q) in *.
    assert (Hbd : build E (get_tree fuel E (JInt (e_cur E))) sl [] tag k m (node_state c (s "builtins") ld [(CodecDump.K "content", JArr items)] lid)
            = do (h, m0) <- node_init sl k tag [] true m (node_state c (s "builtins") ld [(CodecDump.K "content", JArr items)] lid) JNull;
              do (ns, m1) <- sub_list (get_tree fuel E (JInt (e_cur E))) [] (GetTree.K "content") m0 items;
              Ok (Node h (or_empty (GetTree.K "content") LEmptyList ns), m1)).
    { unfold k, tag, ld. destruct q; reflexivity. }
    rewrite Hbd, init_eq in H by (try reflexivity; unfold lid; lia). cbn [bind] in H. clear Hbd.
    rewrite sub_list_gen, <- combine_const in H.
    destruct (sub_gen _ _ (key lid :: m)) as [[ns m1]|] eqn:Es; [|discriminate H]. cbn [bind] in H. injection H as <- <-.
    destruct (HG0 _ _ _ _ _ Es) as [Hlt [Hnl Hg]].
    { rewrite map_length. exact Hlen. }
    { rewrite Hna. apply memo_lt_cons; [lia|]. eapply memo_lt_le; [|exact Hm]. lia. }
    split; [exact Hlt|]. split; [|reflexivity].
    apply (good_alloc base Objs (S r) _ _ lid); [unfold lid; lia|reflexivity| |lia|].
    - unfold nice. cbn [mkh h_class h_module h_kind is_jstr andb].
      assert (Hp : forallb leaf_plain (or_empty (GetTree.K "content") LEmptyList ns) = true).
      { destruct ns as [|n1 ns']; [reflexivity|]. cbn [or_empty]. apply vl_plain_of_notleaf. exact Hnl. }
      unfold k. destruct q; exact Hp.
    - replace (S r - 1)%nat with r by lia.
      destruct ns as [|n1 ns']; cbn [or_empty]; [constructor; [apply good_leaf|constructor]|]. exact Hg.
  Qed.

  (* one axis length inside get_state(obj.shape): a cached small int (an object of the value) or a fresh int object *)
  Lemma int_PVC d : (0 < base)%Z -> (is_small_int d = true -> Objs (PScalar (small_int_base + d) (SInt d))) -> PVC 1 (int_clo d).
  Proof.
    intros Hb0 Hio st j st' H Hb. unfold int_clo, int_obj in H. destruct (is_small_int d) eqn:Hsm.
    - injection H as <- <-. apply (scalar_PV _ _ (Hio eq_refl)); [reflexivity|exact Hb].
    - destruct (fresh st) as [i st1] eqn:Hf. injection H as <- <-.
      assert (Hi : i = d_next st /\ d_next st1 = (d_next st + 1)%Z) by (unfold fresh in Hf; injection Hf as <- <-; split; reflexivity).
      destruct Hi as [-> Hn1]. split; [lia|]. set (i := d_next st) in *. set (t0 := show_Z d).
      intros fuel m sl n m' H Hm. destruct fuel as [|fuel]; [discriminate H|]. unfold proto, json_state in H.
      rewrite (gt_step E Hreg fuel sl m _ _ _ _ i (s "_general.JsonNode") KJson) in H; [|reflexivity|cbn; tauto|reflexivity].
      rewrite (memo_lt_fresh _ i i Hm ltac:(lia)) in H.
      set (ji := node_state (CodecDump.K "str") (CodecDump.K "builtins") (CodecDump.K "JsonNode")
                   [(CodecDump.K "content", JStr t0); (CodecDump.K "is_json", JBool true)] i) in *.
      assert (Hbi : forall rec, build E rec sl [] (s "_general.JsonNode") KJson m ji
              = do (h, m0) <- node_init sl KJson (s "_general.JsonNode") [] true m ji JNull;
                Ok (Node (set_aux h (JStr t0)) [], m0)).
      { intros rec. unfold build. destruct (node_init _ _ _ _ _ _ _ _) as [[h m0]|]; reflexivity. }
      rewrite Hbi in H. unfold ji in H at 1. rewrite init_eq in H by (try reflexivity; unfold i; lia). cbn [bind] in H. clear Hbi.
      injection H as <- <-.
      split; [rewrite Hn1; apply memo_lt_cons; [lia|]; eapply memo_lt_le; [|exact Hm]; lia|]. split; [|reflexivity].
      eapply (good_alloc base Objs 1 _ _ i); [unfold i; lia|reflexivity|reflexivity|lia|constructor].
  Qed.

  (* the node of get_state(obj.shape): the empty-tuple singleton for shape (), a fresh tuple around the axis lengths otherwise *)
  Lemma shape_local dims st1 shj st2 :
    shape_state dims st1 = (shj, st2) ->
    (forall d, In d dims -> is_small_int d = true -> Objs (PScalar (small_int_base + d) (SInt d))) ->
    (dims = [] -> Objs empty_tuple_val) -> (base <= d_next st1)%Z -> (0 < base)%Z ->
    (d_next st1 <= d_next st2)%Z /\
    forall fuel m1 sl shn m2, get_tree fuel E proto [] sl m1 shj = Ok (shn, m2) -> memo_lt m1 (d_next st1) -> Out 2 (d_next st2) shn m2.
  Proof.
    intros Hsh Hio Het Hb Hb0. unfold shape_state in Hsh. destruct dims as [|d0 dims0].
    - cbn [shape_items] in Hsh. injection Hsh as <- <-. split; [lia|].
      intros fuel m1 sl shn m2 Hg Hm.
      destruct (seq_PV QTuple empty_tuple_id (s "tuple") [] (Het eq_refl) (Forall_nil _) st1 _ st1 eq_refl Hb) as [_ HP].
      destruct (HP _ _ _ _ _ Hg Hm) as [A [B C0]]. split; [exact A|]. split; [|exact C0]. eapply good_mono; [exact B|]. cbn [need max_map]. lia.
    - set (dims := d0 :: dims0) in *. destruct (fresh st1) as [tid st0] eqn:Hf.
      assert (Hi : tid = d_next st1 /\ st0 = snd (fresh st1)) by (rewrite Hf; unfold fresh in Hf; injection Hf as <- <-; split; reflexivity).
      destruct Hi as [-> ->]. pose proof (shape_items_run dims (snd (fresh st1))) as Hrun.
      destruct (shape_items dims (snd (fresh st1))) as [items st3]. injection Hsh as <- <-.
      assert (HQ : forall ds, (forall d, In d ds -> is_small_int d = true -> Objs (PScalar (small_int_base + d) (SInt d))) ->
                     Forall (PVC 1) (map int_clo ds)).
      { induction ds as [|d ds IH]; intros Hio'; cbn [map]; constructor.
        - apply int_PVC; [exact Hb0|]. apply Hio'. left. reflexivity.
        - apply IH. intros d' Hd'. apply Hio'. right. exact Hd'. }
      exact (fresh_seq_local QTuple (s "tuple") 1 _ st1 items st3 (HQ dims Hio) Hb Hb0 Hrun).
  Qed.

  (* get_state(obj.tolist()): one ListNode per axis below the first *)
  Lemma raise_PVC r e : PVC r (fun _ => Raise e).
  Proof. intros st j st' H. discriminate H. Qed.
  Lemma tolist_PVC r : forall dims cs, Forall (PVC r) cs -> (0 < base)%Z -> PVC (length dims + r) (tolist_state dims cs).
  Proof.
    induction dims as [|d ds IH]; intros cs Hcs Hb0.
    - cbn [tolist_state length]. destruct cs as [|c [|c' cs]]; try apply raise_PVC. inversion Hcs; assumption.
    - rewrite tolist_state_cons. cbn [length].
      assert (Hch : Forall (PVC (length ds + r)) (map (tolist_state ds) (chunks (nprod ds) d cs))).
      { apply Forall_forall. intros c Hc. apply in_map_iff in Hc. destruct Hc as [ch [<- Hch]]. apply IH; [|exact Hb0].
        pose proof (chunks_Forall (PVC r) (nprod ds) d cs Hcs) as Hf. rewrite Forall_forall in Hf. apply Hf. exact Hch. }
      intros st j st' H Hb. unfold list_clo in H. destruct (fresh st) as [lid st0] eqn:Hf.
      assert (Hi : lid = d_next st /\ st0 = snd (fresh st)) by (rewrite Hf; unfold fresh in Hf; injection Hf as <- <-; split; reflexivity).
      destruct Hi as [-> ->].
      destruct (run_all _ (snd (fresh st))) as [[items st1]|] eqn:Hrun; [|discriminate H]. cbn [bind] in H. injection H as <- <-.
      exact (fresh_seq_local QList (s "list") (length ds + r) _ st items st1 Hch Hb Hb0 Hrun).
  Qed.
  Lemma content_PVC r dims cs : Forall (PVC r) cs -> (0 < base)%Z -> Forall (PVC (length dims + r)) (content_clos dims cs).
  Proof.
    intros Hcs Hb0. destruct dims as [|d ds]; cbn [content_clos].
    - constructor; [exact (tolist_PVC r [] cs Hcs Hb0)|constructor].
    - apply Forall_forall. intros c Hc. apply in_map_iff in Hc. destruct Hc as [ch [<- Hch]].
      apply (PVC_mono (length ds + r)); [cbn [length]; lia|]. apply tolist_PVC; [|exact Hb0].
      pose proof (chunks_Forall (PVC r) (nprod ds) d cs Hcs) as Hf. rewrite Forall_forall in Hf. apply Hf. exact Hch.
  Qed.

  (* ---- object arrays of every rank: the content (the cells below the lists of the further axes), then the shape tuple ---- *)
  Lemma objarr_PV id shape cells :
    Objs (PObjArr id (s "numpy") (s "ndarray") shape cells) ->
    (forall d, In d shape -> is_small_int d = true -> Objs (PScalar (small_int_base + d) (SInt d))) ->
    (shape = [] -> Objs empty_tuple_val) ->
    Forall PV cells -> PV (PObjArr id (s "numpy") (s "ndarray") shape cells).
  Proof.
    intros Hv Hio Het HQ st j st3 H Hb. cbn [get_state] in H.
    destruct (shape_okb shape (length cells)); [|discriminate H].
    destruct (fresh st) as [lid sta] eqn:Hfr.
    destruct (run_all _ sta) as [[js st1]|] eqn:E0; [|discriminate H]. cbn [bind] in H.
    destruct (shape_state shape st1) as [shj st2] eqn:Esh.
    pose proof (Oid _ Hv) as Hid. cbn [pid] in Hid.
    set (v := PObjArr id (s "numpy") (s "ndarray") shape cells) in *.
    match type of H with Ok (?a, _) = _ => set (jv := a) in H end.
    injection H as <- <-.
    assert (Hd : lid = d_next st /\ d_next sta = (d_next st + 1)%Z).
    { unfold fresh in Hfr. injection Hfr as <- <-. cbn. split; reflexivity. }
    destruct Hd as [-> Hna].
    set (r := max_map (fun x => need x) cells).
    assert (Hcl : Forall (PVC r) (map (fun x s0 => get_state D x s0) cells)).
    { apply Forall_forall. intros c0 Hc0. apply in_map_iff in Hc0. destruct Hc0 as [x [<- Hx]].
      apply (PVC_mono (need x)); [apply (max_map_in (fun x => need x)); exact Hx|]. apply PV_PVC. rewrite Forall_forall in HQ. apply HQ. exact Hx. }
    pose proof (content_PVC r (map Z.to_nat shape) _ Hcl ltac:(lia)) as Hcc. rewrite map_length in Hcc.
    destruct (gen_localC _ _ Hcc _ _ _ E0 ltac:(lia)) as [Hnext1 [Hlen HG0]].
    destruct (shape_local shape st1 shj st2 Esh Hio Het ltac:(lia) ltac:(lia)) as [Hn2 Hshape].
    split; [lia|].
    unfold jv. change id with (pid v).
    apply (wrap v _ _ _ _ (s "_numpy.NdArrayNode") KNdArray (d_next st) (d_next st2)); try assumption; try reflexivity; try (cbn; tauto); [lia|].
    intros fuel m sl nn m' H Hm. cbn [pid v] in H. fold jv in H.
    assert (Hbd : forall rec, build E rec sl [] (s "_numpy.NdArrayNode") KNdArray m jv
            = do (h, m0) <- node_init sl KNdArray (s "_numpy.NdArrayNode") [] true m jv JNull;
              do (ns, m1) <- sub_list rec [] (GetTree.K "content") m0 js;
              do (shn, m2) <- rec [] (SOne (GetTree.K "shape")) m1 shj;
              Ok (Node (set_aux h (JStr (GetTree.K "json"))) (or_empty (GetTree.K "content") LEmptyList ns ++ [shn]), m2)).
    { intros rec. unfold build. destruct (node_init _ _ _ _ _ _ _ _) as [[h m0]|]; reflexivity. }
    rewrite Hbd in H. unfold jv in H at 1. rewrite init_eq in H by (try reflexivity; lia). cbn [bind] in H. clear Hbd.
    rewrite sub_list_gen, <- combine_const in H.
    destruct (sub_gen _ _ (key id :: m)) as [[ns m1]|] eqn:Es; [|discriminate H]. cbn [bind] in H.
    destruct (HG0 _ _ _ _ _ Es) as [Hlt [Hnl Hg]].
    { rewrite map_length. exact Hlen. }
    { apply memo_lt_cons; [lia|]. eapply memo_lt_le; [|exact Hm]. lia. }
    destruct (get_tree fuel E proto [] (SOne (GetTree.K "shape")) m1 shj) as [[shn m2]|] eqn:Ekt; [|discriminate H]. cbn [bind] in H.
    injection H as <- <-.
    destruct (Hshape _ _ _ _ _ Ekt Hlt) as [Hklt [Hkg Hknl]].
    split; [exact Hklt|]. split; [|reflexivity].
    apply (good_own id); [exact (own_obj v Hv)|reflexivity| |apply need_pos|].
    - unfold nice. cbn [set_aux mkh h_class h_module h_kind is_jstr andb]. rewrite forallb_app. cbn [forallb]. rewrite andb_true_r.
      replace (leaf_plain shn) with true by (destruct shn; [reflexivity|reflexivity|discriminate Hknl]). rewrite andb_true_r.
      destruct ns as [|n1 ns']; [reflexivity|]. cbn [or_empty]. apply vl_plain_of_notleaf. exact Hnl.
    - apply Forall_app. split.
      + destruct ns as [|n1 ns']; cbn [or_empty]; [constructor; [apply good_leaf|constructor]|].
        rewrite Forall_forall in Hg. apply Forall_forall. intros x Hx. eapply good_mono; [apply Hg; exact Hx|]. unfold v, r. cbn [need]. lia.
      + constructor; [|constructor]. eapply good_mono; [exact Hkg|]. unfold v. cbn [need]. lia.
  Qed.

  (* ---- assembling ---- *)
  Theorem vok_good : forall v, vok D F Objs v -> PV v.
  Proof.
    apply (pval_ind' (fun v => vok D F Objs v -> PV v)).
    - intros v Hl Hv. destruct v; try discriminate Hl; cbn [vok] in Hv; destruct Hv as [Ho Hv]; try contradiction.
      + apply scalar_PV; assumption.
      + apply bytes_PV; assumption.
      + apply slice_PV; assumption.
      + apply arr_PV; assumption.
      + apply dtype_PV; assumption.
      + apply sparse_PV; assumption.
      + apply func_PV; assumption.
      + apply type_PV; assumption.
    - intros q id mo c nt l IH [Ho [-> [-> [Hc Hall]]]]. apply seq_PV; [exact Ho|].
      eapply Forall_imp2; [exact IH|apply vok_all; exact Hall].
    - intros id mo c l IH [Ho [Hc [Hi Hvals]]]. apply dict_PV; try assumption.
      apply Forall_map_snd. eapply Forall_imp2; [exact IH|apply vok_vals; exact Hvals].
    - intros id mo c f l IHf IH [Ho [-> [-> [Hi [Hf Hvals]]]]]. apply defdict_PV; try assumption; [apply IHf; exact Hf|].
      apply Forall_map_snd. eapply Forall_imp2; [exact IH|apply vok_vals; exact Hvals].
    - intros id mo c sh l IH [Ho [-> [-> [Hok [Hrt [Hio [Het Hall]]]]]]]. apply objarr_PV; try assumption.
      eapply Forall_imp2; [exact IH|apply vok_all; exact Hall].
    - intros id mo c d k IHd IHk [Ho [-> [-> [Hd Hk0]]]]. apply masked_PV; auto.
    - intros id mo c x IHx [Ho [Hr Hx]]. apply randstate_PV; auto.
    - intros id mo c x y IHx IHy [Ho [Hr [Hx Hy]]]. apply randgen_PV; auto.
    - intros id mo c f a k n IHf IHa IHk IHn [Ho [-> [-> [Hok [Hf [Ha [Hk0 Hn0]]]]]]]. apply partial_PV; auto.
    - intros id c a IHa [Ho [Hr [Hok Hva]]]. apply opfunc_PV; try assumption. apply IHa. exact Hva.
    - intros; cbn [vok] in *; tauto.
    - intros id mo c hk h ok x _ IHx [Ho [-> [-> [Hr [Hhk Hok]]]]]. destruct ok as [| | |e].
      + destruct Hok as [_ Hvx]. apply objreduce_PV; auto.
      + apply objstate_PV; auto.
      + subst x. apply objnostate_PV; auto.
      + contradiction.
  Qed.

End Local.

(* ================= the node graph: bounded depth through references ================= *)
Section Graph.
  Variable R : node.

  (* every path from n, references followed, has at most f nodes *)
  Fixpoint fits (f : nat) (n : node) : Prop :=
    match f with
    | O => False
    | S f' =>
        match n with
        | Leaf _ _ => True
        | Ref _ i => exists t, find_id i R = Some t /\ fits f' t
        | Node _ subs => Forall (fits f') subs
        end
    end.

  Lemma fits_mono : forall f n f', fits f n -> (f <= f')%nat -> fits f' n.
  Proof.
    induction f as [|f IH]; intros n f' H Hle; [destruct H|].
    destruct f' as [|f']; [lia|]. destruct n as [h subs|sl i|sl l]; cbn [fits] in *.
    - eapply Forall_impl; [|exact H]. intros a Ha. eapply IH; [exact Ha|lia].
    - destruct H as [t [Ht Hf]]. exists t. split; [exact Ht|]. eapply IH; [exact Hf|lia].
    - exact I.
  Qed.

  Inductive reach : node -> node -> Prop :=
  | reach_refl n : reach n n
  | reach_child h subs c x : In c subs -> reach c x -> reach (Node h subs) x
  | reach_ref sl i t x : find_id i R = Some t -> reach t x -> reach (Ref sl i) x.

  Lemma reach_fits a b : reach a b -> forall f, fits f a -> fits f b.
  Proof.
    induction 1 as [n|h subs c x Hc Hr IH|sl i t x Ht Hr IH]; intros f Hf; [exact Hf| |].
    - destruct f as [|f]; [destruct Hf|]. cbn [fits] in Hf. rewrite Forall_forall in Hf.
      eapply fits_mono; [apply IH; apply Hf; exact Hc|lia].
    - destruct f as [|f]; [destruct Hf|]. cbn [fits] in Hf. destruct Hf as [t' [Ht' Hf]].
      rewrite Ht in Ht'. injection Ht' as <-. eapply fits_mono; [apply IH; exact Hf|lia].
  Qed.

  Lemma reach_sub a b : reach a b -> sub a R -> sub b R.
  Proof.
    induction 1 as [n|h subs c x Hc Hr IH|sl i t x Ht Hr IH]; intros Hs; [exact Hs| |].
    - apply IH. eapply sub_child; eauto.
    - apply IH. eapply find_id_sub; eauto.
  Qed.

  (* no node is reachable from one of its own children *)
  Lemma no_cycle : forall f h subs c, fits f (Node h subs) -> In c subs -> reach c (Node h subs) -> False.
  Proof.
    induction f as [|f IH]; intros h subs c Hf Hc Hr; [destruct Hf|].
    pose proof Hf as Hf0. cbn [fits] in Hf. rewrite Forall_forall in Hf.
    eapply IH; [|exact Hc|exact Hr]. eapply reach_fits; [exact Hr|]. apply Hf. exact Hc.
  Qed.

  (* ---- ids are unique: find_id returns the node that carries the id ---- *)
  Lemma find_id_in i : forall n t, find_id i n = Some t -> In i (ids n).
  Proof.
    intros n t H. destruct (find_id_hid _ _ _ H) as [hd [subs [-> Hi]]].
    eapply ids_sub; [eapply find_id_sub; exact H|]. cbn [ids]. unfold own_ids. rewrite Hi. left. reflexivity.
  Qed.

  Lemma find_id_self : forall n, NoDup (ids n) -> forall h subs i, sub (Node h subs) n -> h_id h = Some i ->
    find_id i n = Some (Node h subs).
  Proof.
    induction n as [hr rs IH|sl j|sl l] using node_ind'; intros ND h subs i Hs Hi.
    - apply sub_node_inv in Hs. destruct Hs as [Heq|[x [Hx Hs]]].
      + injection Heq as -> ->. cbn [find_id]. rewrite Hi.
        replace (hkey_eqb i i) with true by (symmetry; apply hkey_eqb_eq; reflexivity). reflexivity.
      + cbn [find_id]. cbn [ids] in ND.
        assert (Hix : In i (ids x)) by (eapply ids_sub; [exact Hs|]; cbn [ids]; unfold own_ids; rewrite Hi; left; reflexivity).
        assert (Hown : match h_id hr with Some i0 => hkey_eqb i0 i = false | None => True end).
        { destruct (h_id hr) as [i0|] eqn:Hr0; [|exact I]. destruct (hkey_eqb i0 i) eqn:Eq; [|reflexivity]. exfalso.
          apply hkey_eqb_eq in Eq. subst i0. eapply (NoDup_app_disj (own_ids hr) (flat_map ids rs) i ND).
          - unfold own_ids. rewrite Hr0. left. reflexivity.
          - eapply In_flat_map_ids; eauto. }
        assert (B : fold_right (fun y acc => match find_id i y with Some r => Some r | None => acc end) None rs = Some (Node h subs)).
        { apply NoDup_app_r in ND. clear Hown. induction rs as [|y rs IHrs]; [destruct Hx|].
          inversion IH as [|? ? Hy Hrest]; subst. cbn [fold_right]. cbn [flat_map] in ND. destruct Hx as [->|Hx].
          - rewrite (Hy (NoDup_app_l _ _ ND) h subs i Hs Hi). reflexivity.
          - destruct (find_id i y) as [r|] eqn:Fy.
            + exfalso. apply find_id_in in Fy. eapply (NoDup_app_disj _ _ i ND); [exact Fy|]. eapply In_flat_map_ids; eauto.
            + apply IHrs; [exact Hrest|eapply NoDup_app_r; eauto|exact Hx]. }
        destruct (h_id hr) as [i0|]; [rewrite Hown|]; exact B.
    - apply sub_ref_inv in Hs. discriminate Hs.
    - apply sub_leaf_inv in Hs. discriminate Hs.
  Qed.

  Hypothesis ND : NoDup (ids R).

  (* the path of ids met on the way down never meets the id of a node still to be visited *)
  Definition harmless (p : list hkey) (n : node) : Prop :=
    forall hx sx, reach n (Node hx sx) -> on_path hx p = false.

  Lemma harmless_nil n : harmless [] n.
  Proof. intros hx sx _. unfold on_path. destruct (h_id hx); reflexivity. Qed.

  Lemma harmless_push f h subs c p :
    sub (Node h subs) R -> fits f (Node h subs) -> In c subs -> harmless p (Node h subs) -> harmless (push_path h p) c.
  Proof.
    intros Hs Hf Hc Hp hx sx Hr. pose proof (Hp hx sx (reach_child _ _ _ _ Hc Hr)) as H0.
    unfold push_path. destruct (h_id h) as [i|] eqn:Hi; [|exact H0].
    unfold on_path in *. destruct (h_id hx) as [ix|] eqn:Hix; [|reflexivity]. cbn [memo_mem]. rewrite H0, orb_false_r.
    destruct (hkey_eqb ix i) eqn:Eq; [|reflexivity]. exfalso. apply hkey_eqb_eq in Eq. subst ix.
    assert (Hsx : sub (Node hx sx) R) by (eapply reach_sub; [exact Hr|eapply sub_child; eauto]).
    pose proof (find_id_self R ND hx sx i Hsx Hix) as F1. pose proof (find_id_self R ND h subs i Hs Hi) as F2.
    rewrite F1 in F2. injection F2 as -> ->. eapply no_cycle; eauto.
  Qed.

  Lemma harmless_ref sl i t p : find_id i R = Some t -> harmless p (Ref sl i) -> harmless p t.
  Proof. intros Ht Hp hx sx Hr. apply (Hp hx sx). eapply reach_ref; eauto. Qed.

  Lemma count_path_zero i : forall p, memo_mem i p = false -> count_path i p = O.
  Proof.
    induction p as [|x p IH]; intros H; [reflexivity|]. cbn [memo_mem] in H. apply orb_false_iff in H. destruct H as [H1 H2].
    cbn [count_path]. rewrite H1, (IH H2). reflexivity.
  Qed.

  Lemma harmless_not_twice p h subs : harmless p (Node h subs) -> twice_on_path h p = false.
  Proof.
    intros Hp. pose proof (Hp h subs (reach_refl _)) as H0. unfold on_path, twice_on_path in *.
    destruct (h_id h) as [i|]; [|reflexivity]. rewrite (count_path_zero i p H0). reflexivity.
  Qed.
End Graph.

(* ================= what the audit and walk need of one node ================= *)
Lemma nice_hstr h subs : nice h subs = true -> exists c m, h_class h = JStr c /\ h_module h = JStr m.
Proof.
  unfold nice. intros H. apply andb_prop in H. destruct H as [H _]. apply andb_prop in H. destruct H as [H1 H2].
  destruct (h_class h); try discriminate H1. destruct (h_module h); try discriminate H2. eauto.
Qed.
Lemma nice_not_v0 h subs : nice h subs = true -> h_kind h <> KFunctionV0.
Proof.
  intros H K. unfold nice in H. rewrite K in H. rewrite Bool.andb_false_r in H. discriminate H.
Qed.
Lemma nice_generic h subs : nice h subs = true -> ukind_of (h_kind h) = UGeneric -> forallb leaf_plain subs = true.
Proof.
  unfold nice. intros H U. apply andb_prop in H. destruct H as [_ H].
  destruct (h_kind h); try discriminate U; try discriminate H; try exact H.
  apply andb_prop in H. destruct H as [H _]. exact H.
Qed.
Lemma nice_json h subs : nice h subs = true -> h_kind h = KJson -> subs = [] /\ exists t, h_aux h = JStr t.
Proof.
  unfold nice. intros H K. rewrite K in H. apply andb_prop in H. destruct H as [_ H]. apply andb_prop in H. destruct H as [H1 H2].
  destruct subs; [|discriminate H2]. destruct (h_aux h); try discriminate H1. eauto.
Qed.
Lemma nice_slice h subs : nice h subs = true -> h_kind h = KSlice -> h_tag h = s "_general.SliceNode".
Proof.
  unfold nice. intros H K. rewrite K in H. apply andb_prop in H. destruct H as [_ H]. apply andb_prop in H. destruct H as [_ H].
  apply pstr_eqb_eq in H. exact H.
Qed.
Lemma nice_fn h subs : nice h subs = true -> ukind_of (h_kind h) = UFunction -> h_kind h = KFunction /\ subs = [].
Proof.
  unfold nice. intros H U. apply andb_prop in H. destruct H as [_ H].
  destruct (h_kind h); try discriminate U; try discriminate H. destruct subs; [auto|discriminate H].
Qed.
Lemma nice_dict h subs : nice h subs = true -> h_kind h = KDict -> subs <> [].
Proof.
  unfold nice. intros H K. rewrite K in H. apply andb_prop in H. destruct H as [_ H]. apply andb_prop in H. destruct H as [_ H].
  destruct subs; [discriminate H|discriminate].
Qed.
Lemma nice_unskipped h subs : nice h subs = true -> h_kind h <> KSlice -> forallb leaf_plain subs = true.
Proof.
  intros H K. destruct (ukind_of (h_kind h)) eqn:U.
  - assert (K0 : h_kind h = KJson) by (destruct (h_kind h); try discriminate U; reflexivity).
    destruct (nice_json h subs H K0) as [-> _]. reflexivity.
  - exfalso. apply K. destruct (h_kind h); try discriminate U; reflexivity.
  - destruct (nice_fn h subs H U) as [_ ->]. reflexivity.
  - exact (nice_generic h subs H U).
Qed.
Lemma nothing_kinds k : ukind_of k = UNothing -> k = KJson.
Proof. destruct k; intros H; try discriminate H; auto. Qed.
Lemma own_kinds k : ukind_of k = UOwn -> k = KSlice.
Proof. destruct k; intros H; try discriminate H; auto. Qed.

Lemma concat_res_ok {A} (l : list (res (list A))) : Forall (fun r => exists u, r = Ok u) l -> exists u, concat_res l = Ok u.
Proof.
  induction 1 as [|r l [a ->] Hl [b IH]]; [exists []; reflexivity|]. cbn [concat_res bind]. rewrite IH. cbn [bind]. eauto.
Qed.
Lemma concat_res_nil {A} (l : list (res (list A))) : concat_res l = Ok [] -> Forall (fun r => r = Ok []) l.
Proof.
  induction l as [|r l IH]; intros H; [constructor|]. cbn [concat_res] in H.
  destruct r as [a|]; [|discriminate H]. cbn [bind] in H. destruct (concat_res l) as [b|]; [|discriminate H]. cbn [bind] in H.
  injection H as H. apply app_eq_nil in H. destruct H as [-> ->]. constructor; [reflexivity|apply IH; reflexivity].
Qed.

(* ================= the audit of every node of the graph completes, whatever the path and the fuel ================= *)
Section Audit.
  Variable E : env.
  Variable T : trust.
  Variable R : node.
  Hypothesis ND : NoDup (ids R).
  Hypothesis Hnice : forall h subs, sub (Node h subs) R -> nice h subs = true.

  Lemma self_safe_ok h subs : nice h subs = true -> exists b, self_safe E T h = Ok b.
  Proof.
    intros H. destruct (nice_hstr _ _ H) as [c [m [Hc Hm]]]. unfold self_safe.
    destruct (kind_eqb (h_kind h) KJson); [eauto|]. unfold node_name. rewrite Hc, Hm. cbn [jqual bind]. eauto.
  Qed.
  Lemma self_safe_of_ok h subs : nice h subs = true -> exists b, self_safe_of E T h subs = Ok b.
  Proof.
    intros H. rewrite (self_safe_of_not_v0 E T h subs (nice_not_v0 _ _ H)). eapply self_safe_ok; exact H.
  Qed.
  Lemma own_unsafe_ok h subs : nice h subs = true -> exists u, own_unsafe E T h = Ok u.
  Proof.
    intros H. unfold own_unsafe. destruct (self_safe_ok h subs H) as [b ->]. cbn [bind]. destruct b; [eauto|].
    destruct (nice_hstr _ _ H) as [c [m [Hc Hm]]]. unfold node_name. rewrite Hc, Hm. cbn [jqual bind]. eauto.
  Qed.

  Lemma unsafe_total : forall k n, sub n R -> fits R k n -> leaf_plain n = true ->
    forall fuel path, (k <= fuel)%nat -> exists u, unsafe_g E T R fuel path n = Ok u.
  Proof.
    induction k as [|k IH]; intros n Hs Hf Hl fuel path Hle; [destruct Hf|].
    destruct fuel as [|fuel]; [lia|]. destruct n as [h subs|sl i|sl l]; cbn [unsafe_g]; cbn [fits] in Hf.
    - pose proof (Hnice h subs Hs) as Hn. destruct (ukind_of (h_kind h)) eqn:U; [eauto| | |].
      + (* SliceNode: the header's own name, which is text in a dumped tree *)
        exact (own_unsafe_ok h subs Hn).
      + destruct (nice_fn _ _ Hn U) as [K _]. destruct (nice_hstr _ _ Hn) as [c [m [Hc Hm]]].
        unfold fn_unsafe, function_name. rewrite K, Hc, Hm. cbn [jfmt bind]. destruct (mem _ _); eauto.
      + destruct (on_path h path); [eauto|]. destruct (own_unsafe_ok h subs Hn) as [own ->]. cbn [bind].
        destruct (concat_res_ok (map (unsafe_g E T R fuel (push_path h path)) subs)) as [rest ->]; [|cbn [bind]; eauto].
        apply Forall_forall. intros r Hr. apply in_map_iff in Hr. destruct Hr as [c [<- Hc]].
        rewrite Forall_forall in Hf. pose proof (nice_generic _ _ Hn U) as Hlp. rewrite forallb_forall in Hlp.
        apply IH; [eapply sub_child; eauto|apply Hf; exact Hc|apply Hlp; exact Hc|lia].
    - destruct Hf as [t [Ht Hf]]. rewrite Ht. apply IH; [eapply find_id_sub; eauto|exact Hf| |lia].
      destruct (find_id_hid _ _ _ Ht) as [hd [subs [-> _]]]. reflexivity.
    - destruct l; try discriminate Hl; cbn [leaf_unsafe]; eauto.
  Qed.

  (* ... and its result does not depend on the fuel left or on the ids already on the call stack *)
  Lemma unsafe_indep : forall k n, sub n R -> fits R k n -> forall f1 f2 p q, (k <= f1)%nat -> (k <= f2)%nat ->
    harmless R p n -> harmless R q n -> unsafe_g E T R f1 p n = unsafe_g E T R f2 q n.
  Proof.
    induction k as [|k IH]; intros n Hs Hf f1 f2 p q H1 H2 Hp Hq; [destruct Hf|].
    destruct f1 as [|f1]; [lia|]. destruct f2 as [|f2]; [lia|]. pose proof Hf as Hf0. destruct n as [h subs|sl i|sl l]; cbn [unsafe_g]; cbn [fits] in Hf.
    - destruct (ukind_of (h_kind h)); try reflexivity.
      rewrite (Hp h subs (reach_refl _ _)), (Hq h subs (reach_refl _ _)).
      replace (map (unsafe_g E T R f1 (push_path h p)) subs) with (map (unsafe_g E T R f2 (push_path h q)) subs); [reflexivity|].
      apply map_ext_in. intros c Hc. rewrite Forall_forall in Hf. symmetry.
      apply (IH c); [eapply sub_child; eauto|apply Hf; exact Hc|lia|lia| |]; eapply harmless_push; eauto.
    - destruct Hf as [t [Ht Hf]]. rewrite Ht. apply (IH t); [eapply find_id_sub; eauto|exact Hf|lia|lia| |]; eapply harmless_ref; eauto.
    - reflexivity.
  Qed.
End Audit.

(* ================= the rows of a completed walk: a forest in pre-order ================= *)
Definition safe_row (r : row) : Prop := r_safe r = true.

(* the rows one level yields: each tree is its root row, then the rows below it (one level deeper); a root that is
   fully safe has only fully safe rows below it *)
Inductive wforest : nat -> list row -> Prop :=
| wf_nil L : wforest L []
| wf_tree L r kids rest : r_level r = L -> wforest (S L) kids -> (r_safe r = true -> Forall safe_row kids) ->
    wforest L rest -> wforest L (r :: kids ++ rest).

Lemma wforest_app L a : wforest L a -> forall b, wforest L b -> wforest L (a ++ b).
Proof.
  induction 1 as [L|L r kids rest Hl Hk IHk Hs Hr IHr]; intros b Hb; [exact Hb|].
  cbn [app]. rewrite <- app_assoc. apply wf_tree; auto.
Qed.

Definition WOK (L : nat) (st : stream) : Prop := snd st = None /\ wforest L (fst st).

Lemma WOK_app L a b : WOK L a -> WOK L b -> WOK L (s_app a b).
Proof.
  intros [Ha1 Ha2] [Hb1 Hb2]. unfold s_app. rewrite Ha1. split; [exact Hb1|]. cbn [fst]. apply wforest_app; assumption.
Qed.
Lemma WOK_concat {A} L (g : A -> stream) l : (forall x, In x l -> WOK L (g x)) -> WOK L (s_concat g l).
Proof.
  induction l as [|x l IH]; intros H; [split; [reflexivity|constructor]|]. cbn [s_concat fold_right].
  apply WOK_app; [apply H; left; reflexivity|apply IH; intros y Hy; apply H; right; exact Hy].
Qed.
Lemma safe_app a b : Forall safe_row (fst a) -> Forall safe_row (fst b) -> Forall safe_row (fst (s_app a b)).
Proof.
  intros Ha Hb. unfold s_app. destruct (snd a); [exact Ha|]. cbn [fst]. apply Forall_app. split; assumption.
Qed.
Lemma safe_concat {A} (g : A -> stream) l : (forall x, In x l -> Forall safe_row (fst (g x))) -> Forall safe_row (fst (s_concat g l)).
Proof.
  induction l as [|x l IH]; intros H; [constructor|]. cbn [s_concat fold_right].
  apply safe_app; [apply H; left; reflexivity|apply IH; intros y Hy; apply H; right; exact Hy].
Qed.

Section WalkTotal.
  Variable E : env.
  Variable T : trust.
  Variable skipped : list pstr.
  Variable R : node.
  Hypothesis ND : NoDup (ids R).
  Hypothesis Hnice : forall h subs, sub (Node h subs) R -> nice h subs = true.
  Hypothesis Hskip : mem (s "_general.SliceNode") skipped = true.

  Lemma node_format_ok h subs : nice h subs = true -> exists val, node_format h = Ok val.
  Proof.
    intros H. destruct (nice_hstr _ _ H) as [c [m [Hc Hm]]]. unfold node_format.
    destruct (h_kind h) eqn:K; try (rewrite Hc, Hm; cbn [jfmt]; eauto); eauto.
    destruct (nice_json _ _ H K) as [_ [t ->]]. cbn [jfmt]. eauto.
  Qed.
  Lemma format_of_ok h subs : nice h subs = true -> exists val, format_of h subs = Ok val.
  Proof.
    intros H. rewrite (format_of_not_v0 h subs (nice_not_v0 _ _ H)). eapply node_format_ok; exact H.
  Qed.

  Lemma slice_skipped h subs : nice h subs = true -> h_kind h = KSlice -> is_skipped E skipped h = true.
  Proof. intros H K. unfold is_skipped. rewrite (nice_slice _ _ H K), Hskip. reflexivity. Qed.

  (* a node whose audit is empty: so is the audit of each child, as the audit of the node computes it *)
  Lemma node_clean k h subs f p : sub (Node h subs) R -> fits R k (Node h subs) -> (k <= f)%nat -> harmless R p (Node h subs) ->
    h_kind h <> KSlice -> unsafe_g E T R f p (Node h subs) = Ok [] ->
    forall c, In c subs -> exists f', f = S f' /\ unsafe_g E T R f' (push_path h p) c = Ok [].
  Proof.
    intros Hs Hf Hle Hp Hk Hu c Hc. pose proof (Hnice h subs Hs) as Hn.
    destruct k as [|k]; [destruct Hf|]. destruct f as [|f]; [lia|]. exists f. split; [reflexivity|].
    cbn [unsafe_g] in Hu. destruct (ukind_of (h_kind h)) eqn:U.
    - pose proof (nothing_kinds _ U) as K. destruct (nice_json _ _ Hn K) as [-> _]. destruct Hc.
    - exfalso. apply Hk. apply own_kinds. exact U.
    - destruct (nice_fn _ _ Hn U) as [_ ->]. destruct Hc.
    - rewrite (Hp h subs (reach_refl _ _)) in Hu. destruct (own_unsafe E T h) as [own|]; [|discriminate Hu]. cbn [bind] in Hu.
      destruct (concat_res _) as [rest|] eqn:C; [|discriminate Hu]. cbn [bind] in Hu. injection Hu as Hu.
      apply app_eq_nil in Hu. destruct Hu as [_ ->]. apply concat_res_nil in C. rewrite Forall_forall in C.
      apply C. apply in_map. exact Hc.
  Qed.

  (* what is proved of walk, by induction on the depth k of the graph below the node *)
  Definition walk_spec (k : nat) : Prop :=
    forall n, sub n R -> fits R k n -> leaf_plain n = true -> (k <= unsafe_fuel)%nat ->
    forall fuel path name level last, (k <= fuel)%nat -> harmless R path n ->
      WOK level (walk E T skipped R fuel path name level last n)
      /\ (forall f p, (k <= f)%nat -> harmless R p n -> unsafe_g E T R f p n = Ok [] ->
            Forall safe_row (fst (walk E T skipped R fuel path name level last n))).

  (* walk on a node, one unfolding *)
  Definition descend_of (fuel : nat) (path : list hkey) (level : nat) (h : hdr) (subs' : list node) : stream :=
    if twice_on_path h path then s_err ERecursion else
    s_concat (fun p => walk E T skipped R fuel (push_path h path) (slot_key (node_slot (fst p))) (S level) (snd p) (fst p))
             (combine subs' (last_flags subs')).
  Definition kids_of (fuel : nat) (path : list hkey) (level : nat) (h : hdr) (subs : list node) : stream :=
    if is_skipped E skipped h then s_ok [] else
    match h_kind h with
    | KDict =>
        match subs with
        | kt :: rest =>
            let kt' := match kt with
                       | Ref _ id => match find_id id R with Some t => t | None => kt end
                       | _ => kt
                       end in
            match kt' with
            | Node hk _ =>
                match h_kind hk with
                | KList => s_lift (unsafe E T R kt')
                             (fun uk => match uk with [] => descend_of fuel path level h rest | _ => descend_of fuel path level h subs end)
                | _ => descend_of fuel path level h subs
                end
            | _ => descend_of fuel path level h subs
            end
        | [] => s_err EKey
        end
    | _ => descend_of fuel path level h subs
    end.
  Lemma walk_node_eq fuel path name level last h subs :
    walk E T skipped R (S fuel) path name level last (Node h subs)
    = s_lift (format_of h subs) (fun val =>
      s_lift (self_safe_of E T h subs) (fun ss =>
      s_lift (match h_kind h with KJson => Ok [] | _ => unsafe E T R (Node h subs) end) (fun u =>
      s_cons {| r_level := level; r_key := name; r_val := val; r_self_safe := ss;
                r_safe := match u with [] => true | _ => false end; r_last := last |}
             (kids_of fuel path level h subs)))).
  Proof. reflexivity. Qed.

  Section Step.
    Variable k : nat.
    Hypothesis IH : walk_spec k.
    Variables (h : hdr) (subs : list node).
    Hypothesis Hs : sub (Node h subs) R.
    Hypothesis Hf : fits R (S k) (Node h subs).
    Hypothesis Hku : (S k <= unsafe_fuel)%nat.
    Variables (fuel : nat) (path : list hkey) (level : nat).
    Hypothesis Hle : (k <= fuel)%nat.
    Hypothesis Hp : harmless R path (Node h subs).

    Definition clean_below (st : stream) : Prop :=
      forall f p, (S k <= f)%nat -> harmless R p (Node h subs) -> unsafe_g E T R f p (Node h subs) = Ok [] -> Forall safe_row (fst st).

    Lemma descend_ok : h_kind h <> KSlice -> forall subs', incl subs' subs ->
      WOK (S level) (descend_of fuel path level h subs') /\ clean_below (descend_of fuel path level h subs').
    Proof.
      intros Hk subs' Hincl. pose proof (Hnice h subs Hs) as Hn. unfold descend_of. rewrite (harmless_not_twice R path h subs Hp).
      pose proof (nice_unskipped _ _ Hn Hk) as Hlp. rewrite forallb_forall in Hlp.
      pose proof Hf as Hf1. cbn [fits] in Hf1. rewrite Forall_forall in Hf1.
      assert (Hch : forall pr, In pr (combine subs' (last_flags subs')) -> In (fst pr) subs).
      { intros [c b] Hpr. apply Hincl. eapply in_combine_l; eauto. }
      split.
      - apply WOK_concat. intros pr Hpr. pose proof (Hch pr Hpr) as Hc.
        apply (IH (fst pr)); [eapply sub_child; eauto|apply Hf1; exact Hc|apply Hlp; exact Hc|lia|lia|eapply harmless_push; eauto].
      - intros f p Hfk Hpp Hu. apply safe_concat. intros pr Hpr. pose proof (Hch pr Hpr) as Hc.
        destruct (node_clean (S k) h subs f p Hs Hf Hfk Hpp Hk Hu (fst pr) Hc) as [f' [-> Hcu]].
        eapply (IH (fst pr)); [eapply sub_child; eauto|apply Hf1; exact Hc|apply Hlp; exact Hc|lia|lia|eapply harmless_push; eauto| | |exact Hcu];
          [lia|eapply harmless_push; eauto].
    Qed.

    Lemma kids_ok : WOK (S level) (kids_of fuel path level h subs) /\ clean_below (kids_of fuel path level h subs).
    Proof.
      pose proof (Hnice h subs Hs) as Hn. unfold kids_of.
      destruct (is_skipped E skipped h) eqn:SK; [split; [split; [reflexivity|constructor]|intros f p _ _ _; constructor]|].
      assert (Hk : h_kind h <> KSlice) by (intros K; rewrite (slice_skipped _ _ Hn K) in SK; discriminate SK).
      pose proof (descend_ok Hk) as Hdesc.
      destruct (kind_eqb (h_kind h) KDict) eqn:KD.
      2:{ destruct (h_kind h); try discriminate KD; exact (Hdesc subs (incl_refl _)). }
      assert (K : h_kind h = KDict) by (destruct (h_kind h); try discriminate KD; reflexivity). rewrite K.
      destruct subs as [|kt rest] eqn:Esubs; [exfalso; eapply nice_dict; eauto|].
      assert (Hrest : incl rest (kt :: rest)) by (intros x Hx; right; exact Hx).
      cbv zeta.
      set (kt' := match kt with Ref _ id => match find_id id R with Some t => t | None => kt end | _ => kt end).
      assert (Hkt' : forall hk sk, kt' = Node hk sk -> exists uk, unsafe E T R kt' = Ok uk).
      { intros hk sk Ekt. pose proof Hf as Hf1. cbn [fits] in Hf1. rewrite Forall_forall in Hf1. pose proof (Hf1 kt (or_introl eq_refl)) as Hfk.
        assert (Hskt : sub kt R) by (eapply sub_child; [exact Hs|left; reflexivity]).
        unfold kt' in *. destruct kt as [hk0 sk0|slk idk|slk lk].
        - apply (unsafe_total E T R Hnice k); [exact Hskt|exact Hfk|reflexivity|lia].
        - destruct k as [|k']; [destruct Hfk|]. cbn [fits] in Hfk. destruct Hfk as [t [Ht Hft]]. rewrite Ht in *.
          apply (unsafe_total E T R Hnice k'); [eapply find_id_sub; eauto|exact Hft|rewrite Ekt; reflexivity|lia].
        - discriminate Ekt. }
      destruct kt' as [hk sk|slk idk|slk lk] eqn:Ekt; try exact (Hdesc (kt :: rest) (incl_refl _)).
      destruct (kind_eqb (h_kind hk) KList) eqn:KL.
      2:{ destruct (h_kind hk); try discriminate KL; exact (Hdesc (kt :: rest) (incl_refl _)). }
      assert (K2 : h_kind hk = KList) by (destruct (h_kind hk); try discriminate KL; reflexivity). rewrite K2.
      destruct (Hkt' hk sk eq_refl) as [uk ->]. cbn [s_lift].
      destruct uk; [exact (Hdesc rest Hrest)|exact (Hdesc (kt :: rest) (incl_refl _))].
    Qed.

    Lemma node_ok name last :
      WOK level (walk E T skipped R (S fuel) path name level last (Node h subs))
      /\ (forall f p, (S k <= f)%nat -> harmless R p (Node h subs) -> unsafe_g E T R f p (Node h subs) = Ok [] ->
            Forall safe_row (fst (walk E T skipped R (S fuel) path name level last (Node h subs)))).
    Proof.
      pose proof (Hnice h subs Hs) as Hn.
      destruct (format_of_ok _ _ Hn) as [val NF]. destruct (self_safe_of_ok E T h subs Hn) as [ss SS].
      destruct (unsafe_total E T R Hnice (S k) (Node h subs) Hs Hf eq_refl unsafe_fuel [] Hku) as [u0 Hu0].
      destruct kids_ok as [[HK1 HK2] HK3].
      rewrite walk_node_eq, NF. cbn [s_lift]. rewrite SS. cbn [s_lift].
      destruct (kind_eqb (h_kind h) KJson) eqn:KJ.
      - assert (K : h_kind h = KJson) by (destruct (h_kind h); try discriminate KJ; reflexivity). rewrite K. cbn [s_lift].
        assert (Hnil : fst (kids_of fuel path level h subs) = []).
        { destruct (nice_json _ _ Hn K) as [-> _]. unfold kids_of. destruct (is_skipped E skipped h); [reflexivity|].
          rewrite K. unfold descend_of. rewrite (harmless_not_twice R path h [] Hp). reflexivity. }
        split.
        + split; [exact HK1|]. cbn [s_cons fst]. rewrite <- (app_nil_r (fst (kids_of fuel path level h subs))).
          apply wf_tree; [reflexivity|exact HK2|intros _; rewrite Hnil; constructor|constructor].
        + intros f p _ _ _. cbn [s_cons fst]. constructor; [reflexivity|rewrite Hnil; constructor].
      - assert (HU : (match h_kind h with KJson => Ok [] | _ => unsafe E T R (Node h subs) end) = Ok u0)
          by (unfold unsafe; rewrite Hu0; destruct (h_kind h); try reflexivity; discriminate KJ).
        rewrite HU. cbn [s_lift].
        split.
        + split; [exact HK1|]. cbn [s_cons fst]. rewrite <- (app_nil_r (fst (kids_of fuel path level h subs))).
          apply wf_tree; [reflexivity|exact HK2| |constructor].
          cbn [r_safe]. intros Hr. assert (u0 = []) by (destruct u0; [reflexivity|discriminate Hr]). subst u0.
          apply (HK3 unsafe_fuel []); [exact Hku|apply harmless_nil|exact Hu0].
        + intros f p Hfk Hpp Hu. cbn [s_cons fst].
          rewrite (unsafe_indep E T R ND (S k) (Node h subs) Hs Hf unsafe_fuel f [] p Hku Hfk (harmless_nil R _) Hpp) in Hu0.
          rewrite Hu in Hu0. injection Hu0 as <-. constructor; [reflexivity|exact (HK3 f p Hfk Hpp Hu)].
    Qed.

    (* the root row of the node comes first; everything after it is what its children yield *)
    Lemma node_shape name last : exists r,
      fst (walk E T skipped R (S fuel) path name level last (Node h subs)) = r :: fst (kids_of fuel path level h subs)
      /\ r_level r = level.
    Proof.
      pose proof (Hnice h subs Hs) as Hn.
      destruct (format_of_ok _ _ Hn) as [val NF]. destruct (self_safe_of_ok E T h subs Hn) as [ss SS].
      destruct (unsafe_total E T R Hnice (S k) (Node h subs) Hs Hf eq_refl unsafe_fuel [] Hku) as [u0 Hu0].
      rewrite walk_node_eq, NF. cbn [s_lift]. rewrite SS. cbn [s_lift].
      destruct (kind_eqb (h_kind h) KJson) eqn:KJ.
      - assert (K : h_kind h = KJson) by (destruct (h_kind h); try discriminate KJ; reflexivity). rewrite K. cbn [s_lift s_cons fst].
        eexists. split; reflexivity.
      - assert (HU : (match h_kind h with KJson => Ok [] | _ => unsafe E T R (Node h subs) end) = Ok u0)
          by (unfold unsafe; rewrite Hu0; destruct (h_kind h); try reflexivity; discriminate KJ).
        rewrite HU. cbn [s_lift s_cons fst]. eexists. split; reflexivity.
    Qed.
  End Step.

  Lemma walk_ok : forall k, walk_spec k.
  Proof.
    induction k as [|k IH]; intros n Hs Hf Hl Hku fuel path name level last Hle Hp; [destruct Hf|].
    destruct fuel as [|fuel]; [lia|]. destruct n as [h subs|sl i|sl l].
    - apply (node_ok k IH h subs Hs Hf Hku fuel path level ltac:(lia) Hp).
    - (* a reference: the memoised node, at the same level *)
      cbn [fits] in Hf. destruct Hf as [t [Ht Hft]]. cbn [walk]. rewrite Ht.
      assert (Hlt : leaf_plain t = true) by (destruct (find_id_hid _ _ _ Ht) as [hd [subs [-> _]]]; reflexivity).
      destruct (IH t (find_id_sub _ _ _ Ht) Hft Hlt ltac:(lia) fuel path name level last ltac:(lia) (harmless_ref R sl i t path Ht Hp)) as [H1 H2].
      split; [exact H1|]. intros f p Hfk Hpp Hu. destruct f as [|f]; [lia|]. cbn [unsafe_g] in Hu. rewrite Ht in Hu.
      apply (H2 f p); [lia|eapply harmless_ref; eauto|exact Hu].
    - (* a leaf that is not raw JSON yields nothing *)
      destruct l; try discriminate Hl; cbn [walk]; (split; [split; [reflexivity|constructor]|intros; constructor]).
  Qed.
  (* the stream of a node: its own row, then a forest one level deeper *)
  Lemma walk_root_shape k h subs fuel path name level last :
    sub (Node h subs) R -> fits R (S k) (Node h subs) -> (S k <= unsafe_fuel)%nat -> (k <= fuel)%nat -> harmless R path (Node h subs) ->
    exists r kids, fst (walk E T skipped R (S fuel) path name level last (Node h subs)) = r :: kids
      /\ r_level r = level /\ wforest (S level) kids.
  Proof.
    intros Hs Hf Hku Hle Hp.
    destruct (node_shape k h subs Hs Hf Hku fuel path level name last) as [r [A B]].
    destruct (kids_ok k (walk_ok k) h subs Hs Hf Hku fuel path level Hle Hp) as [[_ W] _].
    exists r, (fst (kids_of fuel path level h subs)). auto.
  Qed.
End WalkTotal.

(* ================= every reference of a tree get_tree builds (from any JSON) points into the tree ================= *)
Fixpoint refs (n : node) : list hkey :=
  match n with Node _ subs => flat_map refs subs | Ref _ i => [i] | Leaf _ _ => [] end.

(* the memo only grows, holds the target of every reference made, and grows by ids of the nodes built *)
Definition rinv (m : memo) (ns : list node) (m' : memo) : Prop :=
  (forall i, In i m -> In i m') /\ (forall i, In i (flat_map refs ns) -> In i m')
  /\ (forall i, In i m' -> In i m \/ In i (flat_map ids ns)).

Lemma rinv_nil m : rinv m [] m.
Proof. repeat split; auto. intros i []. Qed.
Lemma rinv_app m a m1 b m2 : rinv m a m1 -> rinv m1 b m2 -> rinv m (a ++ b) m2.
Proof.
  intros [A1 [A2 A3]] [B1 [B2 B3]]. unfold rinv. rewrite !flat_map_app. repeat split.
  - auto.
  - intros i Hi. apply in_app_or in Hi. destruct Hi as [Hi|Hi]; auto.
  - intros i Hi. destruct (B3 i Hi) as [H|H]; [|right; apply in_or_app; auto].
    destruct (A3 i H) as [H'|H']; [auto|right; apply in_or_app; auto].
Qed.
Lemma rinv_plain m ns m' n : refs n = [] -> ids n = [] -> rinv m ns m' -> rinv m (n :: ns) m'.
Proof. intros H1 H2 [A [B C]]. unfold rinv. cbn [flat_map]. rewrite H1, H2. cbn [app]. auto. Qed.
Lemma rinv_cons m n m1 ns m2 : rinv m [n] m1 -> rinv m1 ns m2 -> rinv m (n :: ns) m2.
Proof. intros H1 H2. change (n :: ns) with ([n] ++ ns). eapply rinv_app; eauto. Qed.
Lemma rinv_or_empty m ns m' name l : rinv m ns m' -> rinv m (or_empty name l ns) m'.
Proof. destruct ns; [intros H; apply rinv_plain; [reflexivity|reflexivity|exact H]|auto]. Qed.
Lemma rinv_set_aux m h a subs m' : rinv m [Node h subs] m' -> rinv m [Node (set_aux h a) subs] m'.
Proof. intros H. exact H. Qed.

Lemma rnode sl k tag extra b m j aux h m0 subs m' :
  node_init sl k tag extra b m j aux = Ok (h, m0) -> rinv m0 subs m' -> rinv m [Node h subs] m'.
Proof.
  unfold node_init. intros H [C1 [C2 C3]].
  destruct (jindex j (K "__class__")) as [cc|]; cbn [bind] in H; [|discriminate H].
  destruct (jindex j (K "__module__")) as [cm|]; cbn [bind] in H; [|discriminate H].
  destruct (jget j (K "__id__")) as [sid|]; cbn [bind] in H; [|discriminate H].
  destruct (jtruthy sid && b).
  - destruct (jhash sid) as [hk|]; cbn [bind] in H; [|discriminate H]. injection H as <- <-.
    unfold rinv. cbn [flat_map refs ids own_ids h_id]. rewrite !app_nil_r. repeat split.
    + intros i Hi. apply C1. right. exact Hi.
    + exact C2.
    + intros i Hi. destruct (C3 i Hi) as [[<-|H]|H]; [right; left; reflexivity|left; exact H|right; right; exact H].
  - injection H as <- <-. unfold rinv. cbn [flat_map refs ids own_ids h_id]. rewrite !app_nil_r. cbn [app]. auto.
Qed.

Section Refs.
  Variable E : env.
  Variable rec : list pstr -> slot -> memo -> json -> res (node * memo).
  Hypothesis Hrec : forall extra sl m j t m', rec extra sl m j = Ok (t, m') -> rinv m [t] m'.

  Lemma sub_list_r extra name : forall js m ns m', sub_list rec extra name m js = Ok (ns, m') -> rinv m ns m'.
  Proof.
    induction js as [|j js IH]; intros m ns m' H; cbn [sub_list] in H.
    - injection H as <- <-. apply rinv_nil.
    - destruct (rec extra (SElem name) m j) as [[n m1]|] eqn:Rq; cbn [bind] in H; [|discriminate H].
      destruct (sub_list rec extra name m1 js) as [[ns' m2]|] eqn:S; cbn [bind] in H; [|discriminate H].
      injection H as <- <-. eapply rinv_cons; [eapply Hrec; eauto|eapply IH; eauto].
  Qed.
  Lemma sub_dict_r extra name : forall kvs m ns m', sub_dict rec extra name m kvs = Ok (ns, m') -> rinv m ns m'.
  Proof.
    induction kvs as [|[k j] kvs IH]; intros m ns m' H; cbn [sub_dict] in H.
    - injection H as <- <-. apply rinv_nil.
    - destruct (rec extra (SKey name k) m j) as [[n m1]|] eqn:Rq; cbn [bind] in H; [|discriminate H].
      destruct (sub_dict rec extra name m1 kvs) as [[ns' m2]|] eqn:S; cbn [bind] in H; [|discriminate H].
      injection H as <- <-. eapply rinv_cons; [eapply Hrec; eauto|eapply IH; eauto].
  Qed.
  Lemma content_child_r extra j key slotname m n m' : content_child rec extra j key slotname m = Ok (n, m') -> rinv m [n] m'.
  Proof.
    unfold content_child. intros H.
    destruct (jindex j (K "content")) as [c|]; cbn [bind] in H; [|discriminate H].
    destruct (jindex c key) as [v|]; cbn [bind] in H; [|discriminate H]. eapply Hrec; eauto.
  Qed.

  Ltac brk H :=
    repeat (cbn [bind] in H;
      match type of H with
      | bind ?r _ = Ok _ => let X := fresh "X" in destruct r eqn:X; cbn [bind] in H; [|discriminate H]
      | (let (_, _) := ?p in _) = Ok _ => destruct p
      | (match ?x with _ => _ end) = Ok _ => let X := fresh "X" in destruct x eqn:X; try discriminate H
      | (if ?b then _ else _) = Ok _ => let X := fresh "X" in destruct b eqn:X; try discriminate H
      end).
  Ltac r_tac :=
    repeat first
      [ apply rinv_nil
      | apply rinv_or_empty
      | match goal with
        | |- rinv _ (Leaf _ _ :: _) _ => apply rinv_plain; [reflexivity|reflexivity|]
        | |- rinv _ (Node _ [] :: _) _ => apply rinv_plain; [reflexivity|reflexivity|]
        | |- rinv _ (_ ++ [_]) _ => eapply rinv_app
        | H : rec _ _ ?m _ = Ok (?n, _) |- rinv ?m (?n :: _) _ => eapply rinv_cons; [exact (Hrec _ _ _ _ _ _ H)|]
        | H : content_child _ _ _ _ _ ?m = Ok (?n, _) |- rinv ?m (?n :: _) _ => eapply rinv_cons; [exact (content_child_r _ _ _ _ _ _ _ H)|]
        | H : sub_list _ _ _ ?m _ = Ok (?ns, _) |- rinv ?m ?ns _ => exact (sub_list_r _ _ _ _ _ _ H)
        | H : sub_dict _ _ _ ?m _ = Ok (?ns, _) |- rinv ?m ?ns _ => exact (sub_dict_r _ _ _ _ _ _ H)
        end ].

  Lemma build_r sl extra tag k m j t m' : build E rec sl extra tag k m j = Ok (t, m') -> rinv m [t] m'.
  Proof.
    intros H. destruct k; unfold build in H; cbv beta iota zeta in H; brk H;
      try (injection H as <- <-);
      try apply rinv_set_aux;
      (eapply rnode; [eassumption|r_tac]).
  Qed.
End Refs.

Theorem get_tree_r E proto : forall fuel extra sl m j t m',
  get_tree fuel E proto extra sl m j = Ok (t, m') -> rinv m [t] m'.
Proof.
  induction fuel as [|fuel IH]; intros extra sl m j t m' H; [discriminate H|].
  cbn [get_tree] in H.
  destruct (jget j (K "__id__")) as [sid|]; cbn [bind] in H; [|discriminate H].
  destruct (jhash sid) as [hk|]; cbn [bind] in H; [|discriminate H].
  destruct (memo_mem hk m) eqn:MM.
  { injection H as <- <-. unfold rinv. cbn [flat_map refs ids app]. repeat split; auto.
    intros i [<-|[]]. apply memo_mem_In. exact MM. }
  destruct (jindex j (K "__loader__")) as [loader|]; cbn [bind] in H; [|discriminate H].
  destruct (dispatch (e_reg E) (e_cur E) loader proto) as [[tag|]|]; cbn [bind] in H; try discriminate H.
  - destruct (kind_of_class tag) as [k|]; [|discriminate H].
    eapply build_r; [|exact H]. intros; eapply IH; eauto.
  - destruct (jindex j (K "__module__")); cbn [bind] in H; [|discriminate H].
    destruct (jindex j (K "__class__")); cbn [bind] in H; discriminate H.
Qed.

Lemma refs_sub sl i : forall n, sub (Ref sl i) n -> In i (refs n).
Proof.
  intros n H. remember (Ref sl i) as x eqn:Ex. induction H as [|h subs y Hy Hs IH]; [subst; left; reflexivity|].
  cbn [refs]. apply in_flat_map. exists y. split; [exact Hy|apply IH; exact Ex].
Qed.

Theorem root_refs_resolve E schema t m : root_tree E schema = Ok (t, m) ->
  forall sl i, sub (Ref sl i) t -> exists x, find_id i t = Some x.
Proof.
  unfold root_tree. destruct (jindex schema (K "protocol")); cbn [bind]; [|intros X; discriminate X].
  intros H sl i Hs. apply get_tree_r in H. destruct H as [_ [H2 H3]].
  apply find_id_exists. cbn [flat_map] in H2, H3. rewrite app_nil_r in H2, H3.
  destruct (H3 i (H2 i (refs_sub sl i t Hs))) as [[]|Hi]. exact Hi.
Qed.

Lemma walk_node_nonempty E T skipped R fuel path name level last h subs :
  snd (walk E T skipped R fuel path name level last (Node h subs)) = None ->
  fst (walk E T skipped R fuel path name level last (Node h subs)) <> [].
Proof.
  destruct fuel as [|fuel]; [cbn; discriminate|]. cbn [walk]. unfold s_lift.
  repeat match goal with |- snd (match ?x with Ok _ => _ | Raise _ => _ end) = None -> _ => destruct x; [|cbn; discriminate] end.
  intros _. cbn [s_cons fst]. discriminate.
Qed.

(* ================= _traverse_tree on a pre-order forest ================= *)
(* the flat rows of a completed walk, as a forest *)
Lemma wforest_forest L rows : wforest L rows -> exists f, flat f = rows /\ levelled L f /\ safe_closed f.
Proof.
  induction 1 as [L|L r kids rest Hl Hk [fk [Ek [Lk Sk]]] Hs Hr [fr [Er [Lr Sr]]]]; [exists FNil; repeat split|].
  exists (FTree r fk fr). cbn [flat levelled safe_closed]. rewrite Ek, Er. repeat split; assumption.
Qed.

(* every show mode: the root row, then the forest below it with the subtrees of hidden rows cut off *)
Lemma traverse_all_forest sh st r f : snd st = None -> fst st = r :: flat f -> levelled (S (r_level r)) f ->
  traverse_all sh st = Ok (r :: flat (prune sh f)).
Proof.
  intros H1 Hf Hl.
  destruct (levelled_chain f (S (r_level r)) (r_level r) Hl (le_n _)) as [Hc _].
  destruct (traverse_all_preorder sh st r (flat f) Hf Hc) as [A _]. rewrite A, H1.
  destruct (shown_forest sh f (S (r_level r)) None Hl I) as [B _]. rewrite B. reflexivity.
Qed.

(* ================= ranked trees (good) have bounded depth through references ================= *)
Section GoodGraph.
  Variable base : Z.
  Variable Objs : pval -> Prop.
  Hypothesis Ofun : forall a b, Objs a -> Objs b -> pid a = pid b -> a = b.
  Hypothesis Oid : forall a, Objs a -> (0 < pid a < base)%Z.
  Variable R : node.
  Hypothesis Hres : forall sl i, sub (Ref sl i) R -> exists x, find_id i R = Some x.
  Variable r0 : nat.
  Hypothesis HR : good base Objs r0 R.

  Lemma good_sub x n : sub x n -> forall r, good base Objs r n -> exists r', good base Objs r' x.
  Proof.
    induction 1 as [|h subs y Hy Hs IH]; intros r Hg; [eauto|].
    inversion Hg as [| |r1 h1 subs1 w Hw Hi Hn Hnice Hall|r1 h1 subs1 z Hz Hi Hnice Hr1 Hall]; subst;
      rewrite Forall_forall in Hall; eapply IH; apply Hall; exact Hy.
  Qed.

  Lemma good_nice h subs : sub (Node h subs) R -> nice h subs = true.
  Proof. intros Hs. destruct (good_sub _ _ Hs _ HR) as [r' Hg]. inversion Hg; subst; assumption. Qed.

  Lemma good_fits : forall k x, sub x R -> good base Objs k x -> fits R (2 * k + 1) x.
  Proof.
    induction k as [k IH] using lt_wf_ind. intros x Hs Hg. replace (2 * k + 1)%nat with (S (2 * k)) by lia.
    inversion Hg as [r sl l|r sl w Hw Hn|r h subs w Hw Hi Hn Hnice Hall|r h subs z Hz Hi Hnice Hr1 Hall]; subst; cbn [fits].
    - exact I.
    - destruct (Hres sl _ Hs) as [t Ht]. exists t. split; [exact Ht|].
      destruct (find_id_hid _ _ _ Ht) as [hd [subs [-> Hi]]]. pose proof (find_id_sub _ _ _ Ht) as Hst.
      destruct (good_sub _ _ Hst _ HR) as [r' Hg']. pose proof (need_pos w) as Hnp.
      inversion Hg' as [| |r1 h1 subs1 w' Hw' Hi' Hn' Hnice' Hall'|r1 h1 subs1 z Hz Hi' Hnice' Hr1 Hall']; subst.
      + assert (Hk : key (pid w') = key (pid w)) by congruence. apply key_inj in Hk. assert (w' = w) by (apply Ofun; auto). subst w'.
        replace (2 * k)%nat with (S (2 * k - 1)) by lia. cbn [fits]. rewrite Forall_forall in *. intros c Hc.
        eapply fits_mono; [apply (IH (need w - 1)%nat); [lia|eapply sub_child; eauto|apply Hall'; exact Hc]|lia].
      + assert (Hk : key z = key (pid w)) by congruence. apply key_inj in Hk. pose proof (Oid _ Hw). lia.
    - pose proof (need_pos w) as Hnp. rewrite Forall_forall in *. intros c Hc.
      eapply fits_mono; [apply (IH (need w - 1)%nat); [lia|eapply sub_child; eauto|apply Hall; exact Hc]|lia].
    - rewrite Forall_forall in *. intros c Hc.
      eapply fits_mono; [apply (IH (k - 1)%nat); [lia|eapply sub_child; eauto|apply Hall; exact Hc]|lia].
  Qed.
End GoodGraph.

(* ================= the tree of a dumped value of the fragment; visualize on it ================= *)
Lemma fuel_bounds : (default_fuel <= 400)%nat /\ (801 <= walk_fuel)%nat /\ (801 <= unsafe_fuel)%nat.
Proof. repeat split; apply Nat.leb_le; vm_compute; reflexivity. Qed.

Section Dumped.
  Variables (F : cfacts) (D : denv) (base : Z) (v : pval) (E : env) (a : archive).
  Hypothesis Hcur : e_cur E = dn_cur D.
  Hypothesis Hreg : reg_ok (e_reg E) (e_cur E) = true.
  Hypothesis Hsane : facts_sane F = true.
  Hypothesis Hg : c05_guard F D base v = true.
  Hypothesis Hd : dumps_model D base v = Ok a.
  Hypothesis Hmem : e_members E = map fst (a_members a).
  Let Objs : pval -> Prop := fun w => In w (objs D v).

  Lemma dumped_tree : exists t m,
    root_tree E (a_schema a) = Ok (t, m) /\ good base Objs (need v) t /\ notleaf t = true /\ (need v <= default_fuel)%nat
    /\ (forall x y, Objs x -> Objs y -> pid x = pid y -> x = y) /\ (forall x, Objs x -> (0 < pid x < base)%Z).
  Proof.
    pose proof Hg as Hg0. unfold c05_guard in Hg0. apply andb_prop in Hg0. destruct Hg0 as [Hg0 Hn]. apply andb_prop in Hg0. destruct Hg0 as [Hf Hw].
    apply Nat.leb_le in Hn. destruct (objs_wf_fun _ _ Hw) as [Ofun Oid].
    pose proof (fragb_vok D F (objs D v) v Hf (fun y Hy => Hy)) as Hv.
    pose proof Hd as Hd0. unfold dumps_model in Hd0.
    destruct (get_state D v (init_dst base)) as [[j st]|] eqn:E0; [|discriminate Hd0]. cbn [bind] in Hd0.
    destruct (root_fields _ _ _ _ _ E0) as [kv [-> [Hp _]]].
    destruct (d_late st); [discriminate Hd0|].
    assert (Ha : a = {| a_schema := JObj (kv ++ [(CodecDump.K "protocol", JInt (dn_cur D)); (CodecDump.K "_skops_version", JStr (dn_version D))]);
                        a_members := d_members st |}) by (injection Hd0 as Hd1; symmetry; exact Hd1).
    rewrite Ha in Hmem. cbn [a_members] in Hmem.
    set (C := {| c_env := E; c_members := d_members st; c_namedtuples := f_namedtuples F; c_generic := f_generic F;
                 c_missing := f_missing F; c_hkinds := f_hkinds F |}).
    destruct (share_roundtrip D F C base v _ st (conj eq_refl eq_refl) eq_refl eq_refl eq_refl Hmem Hsane Hreg Hg E0) as [_ Hl].
    unfold load_state in Hl. cbn [c_env C] in Hl.
    destruct (get_tree default_fuel E (JInt (e_cur E)) [] (SOne (GetTree.K "root")) [] (JObj kv)) as [[t m']|] eqn:Ht; [|discriminate Hl].
    exists t, m'. split.
    { rewrite Ha. cbn [a_schema]. unfold root_tree.
      assert (Hpr : jindex (JObj (kv ++ [(CodecDump.K "protocol", JInt (dn_cur D)); (CodecDump.K "_skops_version", JStr (dn_version D))])) (GetTree.K "protocol")
                    = Ok (JInt (dn_cur D))).
      { cbn [jindex]. rewrite (dget_app_none _ _ _ Hp). reflexivity. }
      rewrite Hpr. cbn [bind]. rewrite get_tree_ext. rewrite <- Hcur. exact Ht. }
    destruct (vok_good D F E base Objs Oid Hreg v Hv _ _ _ E0 ltac:(cbn; lia)) as [_ H].
    destruct (H default_fuel [] (SOne (GetTree.K "root")) t m' Ht ltac:(intros h Hh; discriminate Hh)) as [_ [Hgood Hnl]].
    split; [exact Hgood|split; [exact Hnl|split; [exact Hn|split; [exact Ofun|exact Oid]]]].
  Qed.

  Variable skipped : list pstr.
  Hypothesis Hskip : mem (s "_general.SliceNode") skipped = true.
  Variable T : trust.

  (* the row generator completes with the root row (level 0) followed by a pre-order forest f of rows at levels >= 1 in
     which fully safe rows have only fully safe rows below them; the default sink completes for EVERY show mode and prints
     the root row and the forest with the subtrees of hidden rows cut off: all of it for show = all, exactly the rows that
     are not fully safe for show = untrusted, the self-safe rows all of whose ancestors in f are self-safe for show = trusted *)
  Theorem visualize_total_dumped : exists r f,
    visualize_rows E skipped (a_schema a) T = Ok (r :: flat f)
    /\ r_level r = O /\ levelled 1 f /\ safe_closed f
    /\ (forall sh, visualize E skipped (a_schema a) T sh = Ok (r :: flat (prune sh f)))
    /\ visualize E skipped (a_schema a) T ShowAll = Ok (r :: flat f)
    /\ visualize E skipped (a_schema a) T ShowUntrusted = Ok (r :: filter (fun x => negb (r_safe x)) (flat f))
    /\ visualize E skipped (a_schema a) T ShowTrusted = Ok (r :: flat (prune ShowTrusted f)).
  Proof.
    destruct dumped_tree as [t [m [Hrt [Hgood [Hnl [Hn [Ofun Oid]]]]]]].
    pose proof (root_tree_ids_unique _ _ _ _ Hrt) as ND. pose proof (root_refs_resolve _ _ _ _ Hrt) as Hres.
    pose proof (good_nice base Objs t (need v) Hgood) as Hnice.
    destruct fuel_bounds as [B1 [B2 B3]].
    assert (Hfit : fits t 801 t).
    { eapply fits_mono; [apply (good_fits base Objs Ofun Oid t Hres (need v) Hgood (need v) t (sub_refl _) Hgood)|lia]. }
    destruct t as [h subs|sl i|sl l]; [|destruct (Hres sl i (sub_refl _)) as [x Hx]; discriminate Hx|discriminate Hnl].
    set (t := Node h subs) in *.
    set (st := walk E T skipped t walk_fuel [] (s "root") 0 false t).
    assert (Hst : visualize_stream E skipped (a_schema a) T = Ok st) by (unfold visualize_stream; rewrite Hrt; reflexivity).
    destruct (walk_ok E T skipped t ND Hnice Hskip 801 t (sub_refl _) Hfit eq_refl B3 walk_fuel [] (s "root") 0%nat false B2 (harmless_nil t t)) as [[W1 _] _].
    fold st in W1.
    assert (Hwf : walk_fuel = S (Nat.pred walk_fuel)) by lia.
    destruct (walk_root_shape E T skipped t ND Hnice Hskip 800 h subs (Nat.pred walk_fuel) [] (s "root") 0%nat false
                (sub_refl _) Hfit B3 ltac:(lia) (harmless_nil t t)) as [r [kids [Hfst [Hr0 Hkids]]]].
    rewrite <- Hwf in Hfst. fold t in Hfst. fold st in Hfst.
    destruct (wforest_forest _ _ Hkids) as [f [Ef [Lf Sf]]]. subst kids.
    assert (Hsh : forall sh, visualize E skipped (a_schema a) T sh = Ok (r :: flat (prune sh f))).
    { intros sh. unfold visualize. rewrite Hst. cbn [bind]. apply traverse_all_forest; [exact W1|exact Hfst|rewrite Hr0; exact Lf]. }
    exists r, f. split; [|split; [exact Hr0|split; [exact Lf|split; [exact Sf|split; [exact Hsh|split; [|split]]]]]].
    - unfold visualize_rows. rewrite Hst. cbn [bind]. rewrite W1, Hfst. reflexivity.
    - rewrite Hsh, prune_all. reflexivity.
    - rewrite Hsh, (prune_untrusted f Sf). reflexivity.
    - apply Hsh.
  Qed.
End Dumped.
