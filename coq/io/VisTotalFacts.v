(* C13, first clause: visualize is total on what the dumper writes (show = all / untrusted, and the raw row generator). *)
From Skv Require Import PyStrFacts CodecGuards CodecWfFacts PyValInd NodeInd TreeIds TreeWf GraphAudit ConstructFacts Families.
From Skv Require Import CodecMemberFacts CodecTreeFacts CodecShareFacts VisTotalPre.
From Skv Require Import Unsafe UnsafeFacts AuditFacts Walk WalkFacts.
From Coq Require Import Lia.

(* ================= the node graph: bounded depth through references ================= *)
Section Graph.
  Variable R : node.

  (* every path from n, references followed, has at most f nodes *)
  Fixpoint fits (f : nat) (n : node) : Prop :=
    match f with
    | O => False
    | S f' =>
        match n with
        | Leaf _ _ => True
        | Ref _ i => exists t, find_id i R = Some t /\ fits f' t
        | Node _ subs => Forall (fits f') subs
        end
    end.

  Lemma fits_mono : forall f n f', fits f n -> (f <= f')%nat -> fits f' n.
  Proof.
    induction f as [|f IH]; intros n f' H Hle; [destruct H|].
    destruct f' as [|f']; [lia|]. destruct n as [h subs|sl i|sl l]; cbn [fits] in *.
    - eapply Forall_impl; [|exact H]. intros a Ha. eapply IH; [exact Ha|lia].
    - destruct H as [t [Ht Hf]]. exists t. split; [exact Ht|]. eapply IH; [exact Hf|lia].
    - exact I.
  Qed.

  Inductive reach : node -> node -> Prop :=
  | reach_refl n : reach n n
  | reach_child h subs c x : In c subs -> reach c x -> reach (Node h subs) x
  | reach_ref sl i t x : find_id i R = Some t -> reach t x -> reach (Ref sl i) x.

  Lemma reach_fits a b : reach a b -> forall f, fits f a -> fits f b.
  Proof.
    induction 1 as [n|h subs c x Hc Hr IH|sl i t x Ht Hr IH]; intros f Hf; [exact Hf| |].
    - destruct f as [|f]; [destruct Hf|]. cbn [fits] in Hf. rewrite Forall_forall in Hf.
      eapply fits_mono; [apply IH; apply Hf; exact Hc|lia].
    - destruct f as [|f]; [destruct Hf|]. cbn [fits] in Hf. destruct Hf as [t' [Ht' Hf]].
      rewrite Ht in Ht'. injection Ht' as <-. eapply fits_mono; [apply IH; exact Hf|lia].
  Qed.

  Lemma reach_sub a b : reach a b -> sub a R -> sub b R.
  Proof.
    induction 1 as [n|h subs c x Hc Hr IH|sl i t x Ht Hr IH]; intros Hs; [exact Hs| |].
    - apply IH. eapply sub_child; eauto.
    - apply IH. eapply find_id_sub; eauto.
  Qed.

  (* no node is reachable from one of its own children *)
  Lemma no_cycle : forall f h subs c, fits f (Node h subs) -> In c subs -> reach c (Node h subs) -> False.
  Proof.
    induction f as [|f IH]; intros h subs c Hf Hc Hr; [destruct Hf|].
    pose proof Hf as Hf0. cbn [fits] in Hf. rewrite Forall_forall in Hf.
    eapply IH; [|exact Hc|exact Hr]. eapply reach_fits; [exact Hr|]. apply Hf. exact Hc.
  Qed.

  (* ---- ids are unique: find_id returns the node that carries the id ---- *)
  Lemma find_id_in i : forall n t, find_id i n = Some t -> In i (ids n).
  Proof.
    intros n t H. destruct (find_id_hid _ _ _ H) as [hd [subs [-> Hi]]].
    eapply ids_sub; [eapply find_id_sub; exact H|]. cbn [ids]. unfold own_ids. rewrite Hi. left. reflexivity.
  Qed.

  Lemma find_id_self : forall n, NoDup (ids n) -> forall h subs i, sub (Node h subs) n -> h_id h = Some i ->
    find_id i n = Some (Node h subs).
  Proof.
    induction n as [hr rs IH|sl j|sl l] using node_ind'; intros ND h subs i Hs Hi.
    - apply sub_node_inv in Hs. destruct Hs as [Heq|[x [Hx Hs]]].
      + injection Heq as -> ->. cbn [find_id]. rewrite Hi.
        replace (hkey_eqb i i) with true by (symmetry; apply hkey_eqb_eq; reflexivity). reflexivity.
      + cbn [find_id]. cbn [ids] in ND.
        assert (Hix : In i (ids x)) by (eapply ids_sub; [exact Hs|]; cbn [ids]; unfold own_ids; rewrite Hi; left; reflexivity).
        assert (Hown : match h_id hr with Some i0 => hkey_eqb i0 i = false | None => True end).
        { destruct (h_id hr) as [i0|] eqn:Hr0; [|exact I]. destruct (hkey_eqb i0 i) eqn:Eq; [|reflexivity]. exfalso.
          apply hkey_eqb_eq in Eq. subst i0. eapply (NoDup_app_disj (own_ids hr) (flat_map ids rs) i ND).
          - unfold own_ids. rewrite Hr0. left. reflexivity.
          - eapply In_flat_map_ids; eauto. }
        assert (B : fold_right (fun y acc => match find_id i y with Some r => Some r | None => acc end) None rs = Some (Node h subs)).
        { apply NoDup_app_r in ND. clear Hown. induction rs as [|y rs IHrs]; [destruct Hx|].
          inversion IH as [|? ? Hy Hrest]; subst. cbn [fold_right]. cbn [flat_map] in ND. destruct Hx as [->|Hx].
          - rewrite (Hy (NoDup_app_l _ _ ND) h subs i Hs Hi). reflexivity.
          - destruct (find_id i y) as [r|] eqn:Fy.
            + exfalso. apply find_id_in in Fy. eapply (NoDup_app_disj _ _ i ND); [exact Fy|]. eapply In_flat_map_ids; eauto.
            + apply IHrs; [exact Hrest|eapply NoDup_app_r; eauto|exact Hx]. }
        destruct (h_id hr) as [i0|]; [rewrite Hown|]; exact B.
    - apply sub_ref_inv in Hs. discriminate Hs.
    - apply sub_leaf_inv in Hs. discriminate Hs.
  Qed.

  Hypothesis ND : NoDup (ids R).

  (* the path of ids met on the way down never meets the id of a node still to be visited *)
  Definition harmless (p : list hkey) (n : node) : Prop :=
    forall hx sx, reach n (Node hx sx) -> on_path hx p = false.

  Lemma harmless_nil n : harmless [] n.
  Proof. intros hx sx _. unfold on_path. destruct (h_id hx); reflexivity. Qed.

  Lemma harmless_push f h subs c p :
    sub (Node h subs) R -> fits f (Node h subs) -> In c subs -> harmless p (Node h subs) -> harmless (push_path h p) c.
  Proof.
    intros Hs Hf Hc Hp hx sx Hr. pose proof (Hp hx sx (reach_child _ _ _ _ Hc Hr)) as H0.
    unfold push_path. destruct (h_id h) as [i|] eqn:Hi; [|exact H0].
    unfold on_path in *. destruct (h_id hx) as [ix|] eqn:Hix; [|reflexivity]. cbn [memo_mem]. rewrite H0, orb_false_r.
    destruct (hkey_eqb ix i) eqn:Eq; [|reflexivity]. exfalso. apply hkey_eqb_eq in Eq. subst ix.
    assert (Hsx : sub (Node hx sx) R) by (eapply reach_sub; [exact Hr|eapply sub_child; eauto]).
    pose proof (find_id_self R ND hx sx i Hsx Hix) as F1. pose proof (find_id_self R ND h subs i Hs Hi) as F2.
    rewrite F1 in F2. injection F2 as -> ->. eapply no_cycle; eauto.
  Qed.

  Lemma harmless_ref sl i t p : find_id i R = Some t -> harmless p (Ref sl i) -> harmless p t.
  Proof. intros Ht Hp hx sx Hr. apply (Hp hx sx). eapply reach_ref; eauto. Qed.

  Lemma count_path_zero i : forall p, memo_mem i p = false -> count_path i p = O.
  Proof.
    induction p as [|x p IH]; intros H; [reflexivity|]. cbn [memo_mem] in H. apply orb_false_iff in H. destruct H as [H1 H2].
    cbn [count_path]. rewrite H1, (IH H2). reflexivity.
  Qed.

  Lemma harmless_not_twice p h subs : harmless p (Node h subs) -> twice_on_path h p = false.
  Proof.
    intros Hp. pose proof (Hp h subs (reach_refl _)) as H0. unfold on_path, twice_on_path in *.
    destruct (h_id h) as [i|]; [|reflexivity]. rewrite (count_path_zero i p H0). reflexivity.
  Qed.
End Graph.

(* ================= what the audit and walk need of one node ================= *)
Lemma nice_hstr h subs : nice h subs = true -> exists c m, h_class h = JStr c /\ h_module h = JStr m.
Proof.
  unfold nice. intros H. apply andb_prop in H. destruct H as [H _]. apply andb_prop in H. destruct H as [H1 H2].
  destruct (h_class h); try discriminate H1. destruct (h_module h); try discriminate H2. eauto.
Qed.
Lemma nice_generic h subs : nice h subs = true -> ukind_of (h_kind h) = UGeneric -> forallb leaf_plain subs = true.
Proof.
  unfold nice. intros H U. apply andb_prop in H. destruct H as [_ H].
  destruct (h_kind h); try discriminate U; try discriminate H; try exact H.
  apply andb_prop in H. destruct H as [H _]. exact H.
Qed.
Lemma nice_json h subs : nice h subs = true -> h_kind h = KJson -> subs = [] /\ exists t, h_aux h = JStr t.
Proof.
  unfold nice. intros H K. rewrite K in H. apply andb_prop in H. destruct H as [_ H]. apply andb_prop in H. destruct H as [H1 H2].
  destruct subs; [|discriminate H2]. destruct (h_aux h); try discriminate H1. eauto.
Qed.
Lemma nice_slice h subs : nice h subs = true -> h_kind h = KSlice -> h_tag h = s "_general.SliceNode".
Proof.
  unfold nice. intros H K. rewrite K in H. apply andb_prop in H. destruct H as [_ H]. apply andb_prop in H. destruct H as [_ H].
  apply pstr_eqb_eq in H. exact H.
Qed.
Lemma nice_fn h subs : nice h subs = true -> ukind_of (h_kind h) = UFunction -> h_kind h = KFunction /\ subs = [].
Proof.
  unfold nice. intros H U. apply andb_prop in H. destruct H as [_ H].
  destruct (h_kind h); try discriminate U; try discriminate H. destruct subs; [auto|discriminate H].
Qed.
Lemma nice_dict h subs : nice h subs = true -> h_kind h = KDict -> subs <> [].
Proof.
  unfold nice. intros H K. rewrite K in H. apply andb_prop in H. destruct H as [_ H]. apply andb_prop in H. destruct H as [_ H].
  destruct subs; [discriminate H|discriminate].
Qed.
Lemma nice_unskipped h subs : nice h subs = true -> h_kind h <> KSlice -> forallb leaf_plain subs = true.
Proof.
  intros H K. destruct (ukind_of (h_kind h)) eqn:U.
  - destruct (h_kind h) eqn:K0; try discriminate U; [congruence|]. destruct (nice_json h subs H K0) as [-> _]. reflexivity.
  - destruct (nice_fn h subs H U) as [_ ->]. reflexivity.
  - exact (nice_generic h subs H U).
Qed.
Lemma nothing_kinds k : ukind_of k = UNothing -> k = KJson \/ k = KSlice.
Proof. destruct k; intros H; try discriminate H; auto. Qed.

Lemma concat_res_ok {A} (l : list (res (list A))) : Forall (fun r => exists u, r = Ok u) l -> exists u, concat_res l = Ok u.
Proof.
  induction 1 as [|r l [a ->] Hl [b IH]]; [exists []; reflexivity|]. cbn [concat_res bind]. rewrite IH. cbn [bind]. eauto.
Qed.
Lemma concat_res_nil {A} (l : list (res (list A))) : concat_res l = Ok [] -> Forall (fun r => r = Ok []) l.
Proof.
  induction l as [|r l IH]; intros H; [constructor|]. cbn [concat_res] in H.
  destruct r as [a|]; [|discriminate H]. cbn [bind] in H. destruct (concat_res l) as [b|]; [|discriminate H]. cbn [bind] in H.
  injection H as H. apply app_eq_nil in H. destruct H as [-> ->]. constructor; [reflexivity|apply IH; reflexivity].
Qed.

(* ================= the audit of every node of the graph completes, whatever the path and the fuel ================= *)
Section Audit.
  Variable E : env.
  Variable T : trust.
  Variable R : node.
  Hypothesis ND : NoDup (ids R).
  Hypothesis Hnice : forall h subs, sub (Node h subs) R -> nice h subs = true.

  Lemma self_safe_ok h subs : nice h subs = true -> exists b, self_safe E T h = Ok b.
  Proof.
    intros H. destruct (nice_hstr _ _ H) as [c [m [Hc Hm]]]. unfold self_safe.
    destruct (kind_eqb (h_kind h) KJson); [eauto|]. unfold node_name. rewrite Hc, Hm. cbn [jqual bind]. eauto.
  Qed.
  Lemma own_unsafe_ok h subs : nice h subs = true -> exists u, own_unsafe E T h = Ok u.
  Proof.
    intros H. unfold own_unsafe. destruct (self_safe_ok h subs H) as [b ->]. cbn [bind]. destruct b; [eauto|].
    destruct (nice_hstr _ _ H) as [c [m [Hc Hm]]]. unfold node_name. rewrite Hc, Hm. cbn [jqual bind]. eauto.
  Qed.

  Lemma unsafe_total : forall k n, sub n R -> fits R k n -> leaf_plain n = true ->
    forall fuel path, (k <= fuel)%nat -> exists u, unsafe_g E T R fuel path n = Ok u.
  Proof.
    induction k as [|k IH]; intros n Hs Hf Hl fuel path Hle; [destruct Hf|].
    destruct fuel as [|fuel]; [lia|]. destruct n as [h subs|sl i|sl l]; cbn [unsafe_g]; cbn [fits] in Hf.
    - pose proof (Hnice h subs Hs) as Hn. destruct (ukind_of (h_kind h)) eqn:U; [eauto| |].
      + destruct (nice_fn _ _ Hn U) as [K _]. destruct (nice_hstr _ _ Hn) as [c [m [Hc Hm]]].
        unfold fn_unsafe, function_name. rewrite K, Hc, Hm. cbn [jfmt bind]. destruct (mem _ _); eauto.
      + destruct (on_path h path); [eauto|]. destruct (own_unsafe_ok h subs Hn) as [own ->]. cbn [bind].
        destruct (concat_res_ok (map (unsafe_g E T R fuel (push_path h path)) subs)) as [rest ->]; [|cbn [bind]; eauto].
        apply Forall_forall. intros r Hr. apply in_map_iff in Hr. destruct Hr as [c [<- Hc]].
        rewrite Forall_forall in Hf. pose proof (nice_generic _ _ Hn U) as Hlp. rewrite forallb_forall in Hlp.
        apply IH; [eapply sub_child; eauto|apply Hf; exact Hc|apply Hlp; exact Hc|lia].
    - destruct Hf as [t [Ht Hf]]. rewrite Ht. apply IH; [eapply find_id_sub; eauto|exact Hf| |lia].
      destruct (find_id_hid _ _ _ Ht) as [hd [subs [-> _]]]. reflexivity.
    - destruct l; try discriminate Hl; cbn [leaf_unsafe]; eauto.
  Qed.

  (* ... and its result does not depend on the fuel left or on the ids already on the call stack *)
  Lemma unsafe_indep : forall k n, sub n R -> fits R k n -> forall f1 f2 p q, (k <= f1)%nat -> (k <= f2)%nat ->
    harmless R p n -> harmless R q n -> unsafe_g E T R f1 p n = unsafe_g E T R f2 q n.
  Proof.
    induction k as [|k IH]; intros n Hs Hf f1 f2 p q H1 H2 Hp Hq; [destruct Hf|].
    destruct f1 as [|f1]; [lia|]. destruct f2 as [|f2]; [lia|]. pose proof Hf as Hf0. destruct n as [h subs|sl i|sl l]; cbn [unsafe_g]; cbn [fits] in Hf.
    - destruct (ukind_of (h_kind h)); try reflexivity.
      rewrite (Hp h subs (reach_refl _ _)), (Hq h subs (reach_refl _ _)).
      replace (map (unsafe_g E T R f1 (push_path h p)) subs) with (map (unsafe_g E T R f2 (push_path h q)) subs); [reflexivity|].
      apply map_ext_in. intros c Hc. rewrite Forall_forall in Hf. symmetry.
      apply (IH c); [eapply sub_child; eauto|apply Hf; exact Hc|lia|lia| |]; eapply harmless_push; eauto.
    - destruct Hf as [t [Ht Hf]]. rewrite Ht. apply (IH t); [eapply find_id_sub; eauto|exact Hf|lia|lia| |]; eapply harmless_ref; eauto.
    - reflexivity.
  Qed.
End Audit.

(* ================= the rows of a completed walk: a forest in pre-order ================= *)
Definition safe_row (r : row) : Prop := r_safe r = true.

(* the rows one level yields: each tree is its root row, then the rows below it (one level deeper); a root that is
   fully safe has only fully safe rows below it *)
Inductive wforest : nat -> list row -> Prop :=
| wf_nil L : wforest L []
| wf_tree L r kids rest : r_level r = L -> wforest (S L) kids -> (r_safe r = true -> Forall safe_row kids) ->
    wforest L rest -> wforest L (r :: kids ++ rest).

Lemma wforest_app L a : wforest L a -> forall b, wforest L b -> wforest L (a ++ b).
Proof.
  induction 1 as [L|L r kids rest Hl Hk IHk Hs Hr IHr]; intros b Hb; [exact Hb|].
  cbn [app]. rewrite <- app_assoc. apply wf_tree; auto.
Qed.

Definition WOK (L : nat) (st : stream) : Prop := snd st = None /\ wforest L (fst st).

Lemma WOK_app L a b : WOK L a -> WOK L b -> WOK L (s_app a b).
Proof.
  intros [Ha1 Ha2] [Hb1 Hb2]. unfold s_app. rewrite Ha1. split; [exact Hb1|]. cbn [fst]. apply wforest_app; assumption.
Qed.
Lemma WOK_concat {A} L (g : A -> stream) l : (forall x, In x l -> WOK L (g x)) -> WOK L (s_concat g l).
Proof.
  induction l as [|x l IH]; intros H; [split; [reflexivity|constructor]|]. cbn [s_concat fold_right].
  apply WOK_app; [apply H; left; reflexivity|apply IH; intros y Hy; apply H; right; exact Hy].
Qed.
Lemma safe_app a b : Forall safe_row (fst a) -> Forall safe_row (fst b) -> Forall safe_row (fst (s_app a b)).
Proof.
  intros Ha Hb. unfold s_app. destruct (snd a); [exact Ha|]. cbn [fst]. apply Forall_app. split; assumption.
Qed.
Lemma safe_concat {A} (g : A -> stream) l : (forall x, In x l -> Forall safe_row (fst (g x))) -> Forall safe_row (fst (s_concat g l)).
Proof.
  induction l as [|x l IH]; intros H; [constructor|]. cbn [s_concat fold_right].
  apply safe_app; [apply H; left; reflexivity|apply IH; intros y Hy; apply H; right; exact Hy].
Qed.

Section WalkTotal.
  Variable E : env.
  Variable T : trust.
  Variable skipped : list pstr.
  Variable R : node.
  Hypothesis ND : NoDup (ids R).
  Hypothesis Hnice : forall h subs, sub (Node h subs) R -> nice h subs = true.
  Hypothesis Hskip : mem (s "_general.SliceNode") skipped = true.

  Lemma node_format_ok h subs : nice h subs = true -> exists val, node_format h = Ok val.
  Proof.
    intros H. destruct (nice_hstr _ _ H) as [c [m [Hc Hm]]]. unfold node_format.
    destruct (h_kind h) eqn:K; try (rewrite Hc, Hm; cbn [jfmt]; eauto); eauto.
    destruct (nice_json _ _ H K) as [_ [t ->]]. cbn [jfmt]. eauto.
  Qed.

  Lemma slice_skipped h subs : nice h subs = true -> h_kind h = KSlice -> is_skipped E skipped h = true.
  Proof. intros H K. unfold is_skipped. rewrite (nice_slice _ _ H K), Hskip. reflexivity. Qed.

  (* a node whose audit is empty: so is the audit of each child, as the audit of the node computes it *)
  Lemma node_clean k h subs f p : sub (Node h subs) R -> fits R k (Node h subs) -> (k <= f)%nat -> harmless R p (Node h subs) ->
    h_kind h <> KSlice -> unsafe_g E T R f p (Node h subs) = Ok [] ->
    forall c, In c subs -> exists f', f = S f' /\ unsafe_g E T R f' (push_path h p) c = Ok [].
  Proof.
    intros Hs Hf Hle Hp Hk Hu c Hc. pose proof (Hnice h subs Hs) as Hn.
    destruct k as [|k]; [destruct Hf|]. destruct f as [|f]; [lia|]. exists f. split; [reflexivity|].
    cbn [unsafe_g] in Hu. destruct (ukind_of (h_kind h)) eqn:U.
    - destruct (nothing_kinds _ U) as [K|K]; [|congruence]. destruct (nice_json _ _ Hn K) as [-> _]. destruct Hc.
    - destruct (nice_fn _ _ Hn U) as [_ ->]. destruct Hc.
    - rewrite (Hp h subs (reach_refl _ _)) in Hu. destruct (own_unsafe E T h) as [own|]; [|discriminate Hu]. cbn [bind] in Hu.
      destruct (concat_res _) as [rest|] eqn:C; [|discriminate Hu]. cbn [bind] in Hu. injection Hu as Hu.
      apply app_eq_nil in Hu. destruct Hu as [_ ->]. apply concat_res_nil in C. rewrite Forall_forall in C.
      apply C. apply in_map. exact Hc.
  Qed.

  Lemma walk_ok : forall k n, sub n R -> fits R k n -> leaf_plain n = true -> (k <= unsafe_fuel)%nat ->
    forall fuel path name level last, (k <= fuel)%nat -> harmless R path n ->
      WOK level (walk E T skipped R fuel path name level last n)
      /\ (forall f p, (k <= f)%nat -> harmless R p n -> unsafe_g E T R f p n = Ok [] ->
            Forall safe_row (fst (walk E T skipped R fuel path name level last n))).
  Proof.
    induction k as [|k IH]; intros n Hs Hf Hl Hku fuel path name level last Hle Hp; [destruct Hf|].
    destruct fuel as [|fuel]; [lia|]. pose proof Hf as Hf0. destruct n as [h subs|sl i|sl l]; cbn [fits] in Hf.
    - (* a node *)
      pose proof (Hnice h subs Hs) as Hn.
      destruct (node_format_ok _ _ Hn) as [val NF]. destruct (self_safe_ok E T h subs Hn) as [ss SS].
      assert (U : exists u, (match h_kind h with KJson => Ok [] | _ => unsafe E T R (Node h subs) end) = Ok u
                            /\ (u = [] -> h_kind h = KJson \/ unsafe_g E T R unsafe_fuel [] (Node h subs) = Ok [])).
      { destruct (unsafe_total E T R Hnice (S k) (Node h subs) Hs Hf0 eq_refl unsafe_fuel [] Hku) as [u Hu].
        destruct (kind_eqb (h_kind h) KJson) eqn:KJ.
        - assert (K : h_kind h = KJson) by (destruct (h_kind h); try discriminate KJ; reflexivity). rewrite K. exists []. auto.
        - exists u. split; [unfold unsafe; rewrite Hu; destruct (h_kind h); try reflexivity; discriminate KJ|].
          intros ->. right. exact Hu. }
      destruct U as [u [HU Hu0]].
      cbn [walk]. rewrite NF. cbn [s_lift]. rewrite SS. cbn [s_lift]. rewrite HU. cbn [s_lift].
      set (g := fun p : node * bool => walk E T skipped R fuel (push_path h path) (slot_key (node_slot (fst p))) (S level) (snd p) (fst p)).
      (* descending into (a sublist of) the children *)
      assert (Hdesc : h_kind h <> KSlice -> forall subs', incl subs' subs ->
                WOK (S level) (if twice_on_path h path then s_err ERecursion else s_concat g (combine subs' (last_flags subs')))
                /\ (forall f p, (S k <= f)%nat -> harmless R p (Node h subs) -> unsafe_g E T R f p (Node h subs) = Ok [] ->
                      Forall safe_row (fst (if twice_on_path h path then s_err ERecursion else s_concat g (combine subs' (last_flags subs')))))).
      { intros Hk subs' Hincl. rewrite (harmless_not_twice R path h subs Hp).
        pose proof (nice_unskipped _ _ Hn Hk) as Hlp. rewrite forallb_forall in Hlp. rewrite Forall_forall in Hf.
        assert (Hch : forall pr, In pr (combine subs' (last_flags subs')) -> In (fst pr) subs).
        { intros [c b] Hpr. apply Hincl. eapply in_combine_l; eauto. }
        split.
        - apply WOK_concat. intros pr Hpr. pose proof (Hch pr Hpr) as Hc. unfold g.
          apply (IH (fst pr)); [eapply sub_child; eauto|apply Hf; exact Hc|apply Hlp; exact Hc|lia|lia|eapply harmless_push; eauto].
        - intros f p Hfk Hpp Hu. apply safe_concat. intros pr Hpr. pose proof (Hch pr Hpr) as Hc. unfold g.
          destruct (node_clean (S k) h subs f p Hs Hf0 Hfk Hpp Hk Hu (fst pr) Hc) as [f' [-> Hcu]].
          eapply (IH (fst pr)); [eapply sub_child; eauto|apply Hf; exact Hc|apply Hlp; exact Hc|lia|lia|eapply harmless_push; eauto| | |exact Hcu];
            [lia|eapply harmless_push; eauto]. }
      match goal with |- WOK level (s_cons ?r ?KIDS) /\ _ => set (r0 := r); set (kids := KIDS) end.
      assert (HK : WOK (S level) kids
                   /\ (forall f p, (S k <= f)%nat -> harmless R p (Node h subs) -> unsafe_g E T R f p (Node h subs) = Ok [] ->
                         Forall safe_row (fst kids))).
      { unfold kids. destruct (is_skipped E skipped h) eqn:SK; [split; [split; [reflexivity|constructor]|intros; constructor]|].
        assert (Hk : h_kind h <> KSlice) by (intros K; rewrite (slice_skipped _ _ Hn K) in SK; discriminate SK).
        specialize (Hdesc Hk).
        destruct (h_kind h) eqn:K; try exact (Hdesc subs (incl_refl _)).
        (* a DictNode: its key_types child may be hidden *)
        destruct subs as [|kt rest]; [exfalso; eapply nice_dict; eauto; rewrite K; reflexivity|].
        assert (Hrest : incl rest (kt :: rest)) by (intros x Hx; right; exact Hx).
        match goal with |- context [match ?kt0 with Node hk _ => _ | _ => _ end] => set (kt' := kt0) end.
        assert (Hkt' : forall hk sk, kt' = Node hk sk -> exists uk, unsafe E T R kt' = Ok uk).
        { intros hk sk Ekt. rewrite Forall_forall in Hf. pose proof (Hf kt (or_introl eq_refl)) as Hfk.
          assert (Hskt : sub kt R) by (eapply sub_child; [exact Hs|left; reflexivity]).
          unfold kt' in *. destruct kt as [hk0 sk0|slk idk|slk lk].
          - apply (unsafe_total E T R Hnice k); [exact Hskt|exact Hfk|reflexivity|lia].
          - destruct k as [|k']; [destruct Hfk|]. cbn [fits] in Hfk. destruct Hfk as [t [Ht Hft]]. rewrite Ht in *.
            apply (unsafe_total E T R Hnice k'); [eapply find_id_sub; eauto|exact Hft|rewrite Ekt; reflexivity|lia].
          - discriminate Ekt. }
        destruct kt' as [hk sk|slk idk|slk lk] eqn:Ekt; try exact (Hdesc (kt :: rest) (incl_refl _)).
        destruct (h_kind hk); try exact (Hdesc (kt :: rest) (incl_refl _)).
        destruct (Hkt' hk sk eq_refl) as [uk ->]. cbn [s_lift].
        destruct uk; [exact (Hdesc rest Hrest)|exact (Hdesc (kt :: rest) (incl_refl _))]. }
      destruct HK as [[HK1 HK2] HK3].
      assert (Hsafe : forall f p, (S k <= f)%nat -> harmless R p (Node h subs) -> unsafe_g E T R f p (Node h subs) = Ok [] -> r_safe r0 = true).
      { intros f p Hfk Hpp Hu. unfold r0. cbn [r_safe].
        destruct (kind_eqb (h_kind h) KJson) eqn:KJ.
        - assert (K : h_kind h = KJson) by (destruct (h_kind h); try discriminate KJ; reflexivity). rewrite K in HU. injection HU as <-. reflexivity.
        - assert (HU' : unsafe E T R (Node h subs) = Ok u) by (destruct (h_kind h); try exact HU; discriminate KJ).
          unfold unsafe in HU'. rewrite (unsafe_indep E T R ND (S k) (Node h subs) Hs Hf0 unsafe_fuel f [] p Hku Hfk (harmless_nil R _) Hpp) in HU'.
          rewrite Hu in HU'. injection HU' as <-. reflexivity. }
      split.
      + split; [exact HK1|]. cbn [s_cons fst]. rewrite <- (app_nil_r (fst kids)). apply wf_tree; [reflexivity|exact HK2| |constructor].
        intros Hr. unfold r0 in Hr. cbn [r_safe] in Hr. assert (u = []) by (destruct u; [reflexivity|discriminate Hr]). subst u.
        destruct (Hu0 eq_refl) as [K|Hu1].
        * destruct (nice_json _ _ Hn K) as [-> _]. unfold kids. destruct (is_skipped E skipped h); [constructor|].
          rewrite K. rewrite (harmless_not_twice R path h [] Hp). constructor.
        * apply (HK3 unsafe_fuel []); [exact Hku|apply harmless_nil|exact Hu1].
      + intros f p Hfk Hpp Hu. cbn [s_cons fst]. constructor; [exact (Hsafe f p Hfk Hpp Hu)|exact (HK3 f p Hfk Hpp Hu)].
    - (* a reference: the memoised node, at the same level *)
      destruct Hf as [t [Ht Hft]]. cbn [walk]. rewrite Ht.
      assert (Hlt : leaf_plain t = true) by (destruct (find_id_hid _ _ _ Ht) as [hd [subs [-> _]]]; reflexivity).
      destruct (IH t (find_id_sub _ _ _ Ht) Hft Hlt ltac:(lia) fuel path name level last ltac:(lia) (harmless_ref R sl i t path Ht Hp)) as [H1 H2].
      split; [exact H1|]. intros f p Hfk Hpp Hu. destruct f as [|f]; [lia|]. cbn [unsafe_g] in Hu. rewrite Ht in Hu.
      apply (H2 f p); [lia|eapply harmless_ref; eauto|exact Hu].
    - (* a leaf that is not raw JSON yields nothing *)
      destruct l; try discriminate Hl; cbn [walk]; (split; [split; [reflexivity|constructor]|intros; constructor]).
  Qed.
End WalkTotal.
