(* C13, first clause: visualize is total on what the dumper writes (show = all / untrusted, and the raw row generator). *)
From Skv Require Import PyStrFacts CodecGuards CodecWfFacts PyValInd NodeInd TreeIds TreeWf GraphAudit ConstructFacts Families.
From Skv Require Import CodecMemberFacts CodecTreeFacts CodecShareFacts CodecFacts CodecRootFacts VisTotalPre VisTotalLocal.
From Skv Require Import Unsafe UnsafeFacts AuditFacts Walk WalkFacts.
From Coq Require Import Lia.

(* ================= the node graph: bounded depth through references ================= *)
Section Graph.
  Variable R : node.

  (* every path from n, references followed, has at most f nodes *)
  Fixpoint fits (f : nat) (n : node) : Prop :=
    match f with
    | O => False
    | S f' =>
        match n with
        | Leaf _ _ => True
        | Ref _ i => exists t, find_id i R = Some t /\ fits f' t
        | Node _ subs => Forall (fits f') subs
        end
    end.

  Lemma fits_mono : forall f n f', fits f n -> (f <= f')%nat -> fits f' n.
  Proof.
    induction f as [|f IH]; intros n f' H Hle; [destruct H|].
    destruct f' as [|f']; [lia|]. destruct n as [h subs|sl i|sl l]; cbn [fits] in *.
    - eapply Forall_impl; [|exact H]. intros a Ha. eapply IH; [exact Ha|lia].
    - destruct H as [t [Ht Hf]]. exists t. split; [exact Ht|]. eapply IH; [exact Hf|lia].
    - exact I.
  Qed.

  Inductive reach : node -> node -> Prop :=
  | reach_refl n : reach n n
  | reach_child h subs c x : In c subs -> reach c x -> reach (Node h subs) x
  | reach_ref sl i t x : find_id i R = Some t -> reach t x -> reach (Ref sl i) x.

  Lemma reach_fits a b : reach a b -> forall f, fits f a -> fits f b.
  Proof.
    induction 1 as [n|h subs c x Hc Hr IH|sl i t x Ht Hr IH]; intros f Hf; [exact Hf| |].
    - destruct f as [|f]; [destruct Hf|]. cbn [fits] in Hf. rewrite Forall_forall in Hf.
      eapply fits_mono; [apply IH; apply Hf; exact Hc|lia].
    - destruct f as [|f]; [destruct Hf|]. cbn [fits] in Hf. destruct Hf as [t' [Ht' Hf]].
      rewrite Ht in Ht'. injection Ht' as <-. eapply fits_mono; [apply IH; exact Hf|lia].
  Qed.

  Lemma reach_sub a b : reach a b -> sub a R -> sub b R.
  Proof.
    induction 1 as [n|h subs c x Hc Hr IH|sl i t x Ht Hr IH]; intros Hs; [exact Hs| |].
    - apply IH. eapply sub_child; eauto.
    - apply IH. eapply find_id_sub; eauto.
  Qed.

  (* no node is reachable from one of its own children *)
  Lemma no_cycle : forall f h subs c, fits f (Node h subs) -> In c subs -> reach c (Node h subs) -> False.
  Proof.
    induction f as [|f IH]; intros h subs c Hf Hc Hr; [destruct Hf|].
    pose proof Hf as Hf0. cbn [fits] in Hf. rewrite Forall_forall in Hf.
    eapply IH; [|exact Hc|exact Hr]. eapply reach_fits; [exact Hr|]. apply Hf. exact Hc.
  Qed.

  (* ---- ids are unique: find_id returns the node that carries the id ---- *)
  Lemma find_id_in i : forall n t, find_id i n = Some t -> In i (ids n).
  Proof.
    intros n t H. destruct (find_id_hid _ _ _ H) as [hd [subs [-> Hi]]].
    eapply ids_sub; [eapply find_id_sub; exact H|]. cbn [ids]. unfold own_ids. rewrite Hi. left. reflexivity.
  Qed.

  Lemma find_id_self : forall n, NoDup (ids n) -> forall h subs i, sub (Node h subs) n -> h_id h = Some i ->
    find_id i n = Some (Node h subs).
  Proof.
    induction n as [hr rs IH|sl j|sl l] using node_ind'; intros ND h subs i Hs Hi.
    - apply sub_node_inv in Hs. destruct Hs as [Heq|[x [Hx Hs]]].
      + injection Heq as -> ->. cbn [find_id]. rewrite Hi.
        replace (hkey_eqb i i) with true by (symmetry; apply hkey_eqb_eq; reflexivity). reflexivity.
      + cbn [find_id]. cbn [ids] in ND.
        assert (Hix : In i (ids x)) by (eapply ids_sub; [exact Hs|]; cbn [ids]; unfold own_ids; rewrite Hi; left; reflexivity).
        assert (Hown : match h_id hr with Some i0 => hkey_eqb i0 i = false | None => True end).
        { destruct (h_id hr) as [i0|] eqn:Hr0; [|exact I]. destruct (hkey_eqb i0 i) eqn:Eq; [|reflexivity]. exfalso.
          apply hkey_eqb_eq in Eq. subst i0. eapply (NoDup_app_disj (own_ids hr) (flat_map ids rs) i ND).
          - unfold own_ids. rewrite Hr0. left. reflexivity.
          - eapply In_flat_map_ids; eauto. }
        assert (B : fold_right (fun y acc => match find_id i y with Some r => Some r | None => acc end) None rs = Some (Node h subs)).
        { apply NoDup_app_r in ND. clear Hown. induction rs as [|y rs IHrs]; [destruct Hx|].
          inversion IH as [|? ? Hy Hrest]; subst. cbn [fold_right]. cbn [flat_map] in ND. destruct Hx as [->|Hx].
          - rewrite (Hy (NoDup_app_l _ _ ND) h subs i Hs Hi). reflexivity.
          - destruct (find_id i y) as [r|] eqn:Fy.
            + exfalso. apply find_id_in in Fy. eapply (NoDup_app_disj _ _ i ND); [exact Fy|]. eapply In_flat_map_ids; eauto.
            + apply IHrs; [exact Hrest|eapply NoDup_app_r; eauto|exact Hx]. }
        destruct (h_id hr) as [i0|]; [rewrite Hown|]; exact B.
    - apply sub_ref_inv in Hs. discriminate Hs.
    - apply sub_leaf_inv in Hs. discriminate Hs.
  Qed.

  Hypothesis ND : NoDup (ids R).

  (* the path of ids met on the way down never meets the id of a node still to be visited *)
  Definition harmless (p : list hkey) (n : node) : Prop :=
    forall hx sx, reach n (Node hx sx) -> on_path hx p = false.

  Lemma harmless_nil n : harmless [] n.
  Proof. intros hx sx _. unfold on_path. destruct (h_id hx); reflexivity. Qed.

  Lemma harmless_push f h subs c p :
    sub (Node h subs) R -> fits f (Node h subs) -> In c subs -> harmless p (Node h subs) -> harmless (push_path h p) c.
  Proof.
    intros Hs Hf Hc Hp hx sx Hr. pose proof (Hp hx sx (reach_child _ _ _ _ Hc Hr)) as H0.
    unfold push_path. destruct (h_id h) as [i|] eqn:Hi; [|exact H0].
    unfold on_path in *. destruct (h_id hx) as [ix|] eqn:Hix; [|reflexivity]. cbn [memo_mem]. rewrite H0, orb_false_r.
    destruct (hkey_eqb ix i) eqn:Eq; [|reflexivity]. exfalso. apply hkey_eqb_eq in Eq. subst ix.
    assert (Hsx : sub (Node hx sx) R) by (eapply reach_sub; [exact Hr|eapply sub_child; eauto]).
    pose proof (find_id_self R ND hx sx i Hsx Hix) as F1. pose proof (find_id_self R ND h subs i Hs Hi) as F2.
    rewrite F1 in F2. injection F2 as -> ->. eapply no_cycle; eauto.
  Qed.

  Lemma harmless_ref sl i t p : find_id i R = Some t -> harmless p (Ref sl i) -> harmless p t.
  Proof. intros Ht Hp hx sx Hr. apply (Hp hx sx). eapply reach_ref; eauto. Qed.

  Lemma count_path_zero i : forall p, memo_mem i p = false -> count_path i p = O.
  Proof.
    induction p as [|x p IH]; intros H; [reflexivity|]. cbn [memo_mem] in H. apply orb_false_iff in H. destruct H as [H1 H2].
    cbn [count_path]. rewrite H1, (IH H2). reflexivity.
  Qed.

  Lemma harmless_not_twice p h subs : harmless p (Node h subs) -> twice_on_path h p = false.
  Proof.
    intros Hp. pose proof (Hp h subs (reach_refl _)) as H0. unfold on_path, twice_on_path in *.
    destruct (h_id h) as [i|]; [|reflexivity]. rewrite (count_path_zero i p H0). reflexivity.
  Qed.
End Graph.

(* ================= what the audit and walk need of one node ================= *)
Lemma nice_hstr h subs : nice h subs = true -> exists c m, h_class h = JStr c /\ h_module h = JStr m.
Proof.
  unfold nice. intros H. apply andb_prop in H. destruct H as [H _]. apply andb_prop in H. destruct H as [H1 H2].
  destruct (h_class h); try discriminate H1. destruct (h_module h); try discriminate H2. eauto.
Qed.
Lemma nice_generic h subs : nice h subs = true -> ukind_of (h_kind h) = UGeneric -> forallb leaf_plain subs = true.
Proof.
  unfold nice. intros H U. apply andb_prop in H. destruct H as [_ H].
  destruct (h_kind h); try discriminate U; try discriminate H; try exact H.
  apply andb_prop in H. destruct H as [H _]. exact H.
Qed.
Lemma nice_json h subs : nice h subs = true -> h_kind h = KJson -> subs = [] /\ exists t, h_aux h = JStr t.
Proof.
  unfold nice. intros H K. rewrite K in H. apply andb_prop in H. destruct H as [_ H]. apply andb_prop in H. destruct H as [H1 H2].
  destruct subs; [|discriminate H2]. destruct (h_aux h); try discriminate H1. eauto.
Qed.
Lemma nice_slice h subs : nice h subs = true -> h_kind h = KSlice -> h_tag h = s "_general.SliceNode".
Proof.
  unfold nice. intros H K. rewrite K in H. apply andb_prop in H. destruct H as [_ H]. apply andb_prop in H. destruct H as [_ H].
  apply pstr_eqb_eq in H. exact H.
Qed.
Lemma nice_fn h subs : nice h subs = true -> ukind_of (h_kind h) = UFunction -> h_kind h = KFunction /\ subs = [].
Proof.
  unfold nice. intros H U. apply andb_prop in H. destruct H as [_ H].
  destruct (h_kind h); try discriminate U; try discriminate H. destruct subs; [auto|discriminate H].
Qed.
Lemma nice_dict h subs : nice h subs = true -> h_kind h = KDict -> subs <> [].
Proof.
  unfold nice. intros H K. rewrite K in H. apply andb_prop in H. destruct H as [_ H]. apply andb_prop in H. destruct H as [_ H].
  destruct subs; [discriminate H|discriminate].
Qed.
Lemma nice_unskipped h subs : nice h subs = true -> h_kind h <> KSlice -> forallb leaf_plain subs = true.
Proof.
  intros H K. destruct (ukind_of (h_kind h)) eqn:U.
  - destruct (h_kind h) eqn:K0; try discriminate U; [congruence|]. destruct (nice_json h subs H K0) as [-> _]. reflexivity.
  - destruct (nice_fn h subs H U) as [_ ->]. reflexivity.
  - exact (nice_generic h subs H U).
Qed.
Lemma nothing_kinds k : ukind_of k = UNothing -> k = KJson \/ k = KSlice.
Proof. destruct k; intros H; try discriminate H; auto. Qed.

Lemma concat_res_ok {A} (l : list (res (list A))) : Forall (fun r => exists u, r = Ok u) l -> exists u, concat_res l = Ok u.
Proof.
  induction 1 as [|r l [a ->] Hl [b IH]]; [exists []; reflexivity|]. cbn [concat_res bind]. rewrite IH. cbn [bind]. eauto.
Qed.
Lemma concat_res_nil {A} (l : list (res (list A))) : concat_res l = Ok [] -> Forall (fun r => r = Ok []) l.
Proof.
  induction l as [|r l IH]; intros H; [constructor|]. cbn [concat_res] in H.
  destruct r as [a|]; [|discriminate H]. cbn [bind] in H. destruct (concat_res l) as [b|]; [|discriminate H]. cbn [bind] in H.
  injection H as H. apply app_eq_nil in H. destruct H as [-> ->]. constructor; [reflexivity|apply IH; reflexivity].
Qed.

(* ================= the audit of every node of the graph completes, whatever the path and the fuel ================= *)
Section Audit.
  Variable E : env.
  Variable T : trust.
  Variable R : node.
  Hypothesis ND : NoDup (ids R).
  Hypothesis Hnice : forall h subs, sub (Node h subs) R -> nice h subs = true.

  Lemma self_safe_ok h subs : nice h subs = true -> exists b, self_safe E T h = Ok b.
  Proof.
    intros H. destruct (nice_hstr _ _ H) as [c [m [Hc Hm]]]. unfold self_safe.
    destruct (kind_eqb (h_kind h) KJson); [eauto|]. unfold node_name. rewrite Hc, Hm. cbn [jqual bind]. eauto.
  Qed.
  Lemma own_unsafe_ok h subs : nice h subs = true -> exists u, own_unsafe E T h = Ok u.
  Proof.
    intros H. unfold own_unsafe. destruct (self_safe_ok h subs H) as [b ->]. cbn [bind]. destruct b; [eauto|].
    destruct (nice_hstr _ _ H) as [c [m [Hc Hm]]]. unfold node_name. rewrite Hc, Hm. cbn [jqual bind]. eauto.
  Qed.

  Lemma unsafe_total : forall k n, sub n R -> fits R k n -> leaf_plain n = true ->
    forall fuel path, (k <= fuel)%nat -> exists u, unsafe_g E T R fuel path n = Ok u.
  Proof.
    induction k as [|k IH]; intros n Hs Hf Hl fuel path Hle; [destruct Hf|].
    destruct fuel as [|fuel]; [lia|]. destruct n as [h subs|sl i|sl l]; cbn [unsafe_g]; cbn [fits] in Hf.
    - pose proof (Hnice h subs Hs) as Hn. destruct (ukind_of (h_kind h)) eqn:U; [eauto| |].
      + destruct (nice_fn _ _ Hn U) as [K _]. destruct (nice_hstr _ _ Hn) as [c [m [Hc Hm]]].
        unfold fn_unsafe, function_name. rewrite K, Hc, Hm. cbn [jfmt bind]. destruct (mem _ _); eauto.
      + destruct (on_path h path); [eauto|]. destruct (own_unsafe_ok h subs Hn) as [own ->]. cbn [bind].
        destruct (concat_res_ok (map (unsafe_g E T R fuel (push_path h path)) subs)) as [rest ->]; [|cbn [bind]; eauto].
        apply Forall_forall. intros r Hr. apply in_map_iff in Hr. destruct Hr as [c [<- Hc]].
        rewrite Forall_forall in Hf. pose proof (nice_generic _ _ Hn U) as Hlp. rewrite forallb_forall in Hlp.
        apply IH; [eapply sub_child; eauto|apply Hf; exact Hc|apply Hlp; exact Hc|lia].
    - destruct Hf as [t [Ht Hf]]. rewrite Ht. apply IH; [eapply find_id_sub; eauto|exact Hf| |lia].
      destruct (find_id_hid _ _ _ Ht) as [hd [subs [-> _]]]. reflexivity.
    - destruct l; try discriminate Hl; cbn [leaf_unsafe]; eauto.
  Qed.

  (* ... and its result does not depend on the fuel left or on the ids already on the call stack *)
  Lemma unsafe_indep : forall k n, sub n R -> fits R k n -> forall f1 f2 p q, (k <= f1)%nat -> (k <= f2)%nat ->
    harmless R p n -> harmless R q n -> unsafe_g E T R f1 p n = unsafe_g E T R f2 q n.
  Proof.
    induction k as [|k IH]; intros n Hs Hf f1 f2 p q H1 H2 Hp Hq; [destruct Hf|].
    destruct f1 as [|f1]; [lia|]. destruct f2 as [|f2]; [lia|]. pose proof Hf as Hf0. destruct n as [h subs|sl i|sl l]; cbn [unsafe_g]; cbn [fits] in Hf.
    - destruct (ukind_of (h_kind h)); try reflexivity.
      rewrite (Hp h subs (reach_refl _ _)), (Hq h subs (reach_refl _ _)).
      replace (map (unsafe_g E T R f1 (push_path h p)) subs) with (map (unsafe_g E T R f2 (push_path h q)) subs); [reflexivity|].
      apply map_ext_in. intros c Hc. rewrite Forall_forall in Hf. symmetry.
      apply (IH c); [eapply sub_child; eauto|apply Hf; exact Hc|lia|lia| |]; eapply harmless_push; eauto.
    - destruct Hf as [t [Ht Hf]]. rewrite Ht. apply (IH t); [eapply find_id_sub; eauto|exact Hf|lia|lia| |]; eapply harmless_ref; eauto.
    - reflexivity.
  Qed.
End Audit.

(* ================= the rows of a completed walk: a forest in pre-order ================= *)
Definition safe_row (r : row) : Prop := r_safe r = true.

(* the rows one level yields: each tree is its root row, then the rows below it (one level deeper); a root that is
   fully safe has only fully safe rows below it *)
Inductive wforest : nat -> list row -> Prop :=
| wf_nil L : wforest L []
| wf_tree L r kids rest : r_level r = L -> wforest (S L) kids -> (r_safe r = true -> Forall safe_row kids) ->
    wforest L rest -> wforest L (r :: kids ++ rest).

Lemma wforest_app L a : wforest L a -> forall b, wforest L b -> wforest L (a ++ b).
Proof.
  induction 1 as [L|L r kids rest Hl Hk IHk Hs Hr IHr]; intros b Hb; [exact Hb|].
  cbn [app]. rewrite <- app_assoc. apply wf_tree; auto.
Qed.

Definition WOK (L : nat) (st : stream) : Prop := snd st = None /\ wforest L (fst st).

Lemma WOK_app L a b : WOK L a -> WOK L b -> WOK L (s_app a b).
Proof.
  intros [Ha1 Ha2] [Hb1 Hb2]. unfold s_app. rewrite Ha1. split; [exact Hb1|]. cbn [fst]. apply wforest_app; assumption.
Qed.
Lemma WOK_concat {A} L (g : A -> stream) l : (forall x, In x l -> WOK L (g x)) -> WOK L (s_concat g l).
Proof.
  induction l as [|x l IH]; intros H; [split; [reflexivity|constructor]|]. cbn [s_concat fold_right].
  apply WOK_app; [apply H; left; reflexivity|apply IH; intros y Hy; apply H; right; exact Hy].
Qed.
Lemma safe_app a b : Forall safe_row (fst a) -> Forall safe_row (fst b) -> Forall safe_row (fst (s_app a b)).
Proof.
  intros Ha Hb. unfold s_app. destruct (snd a); [exact Ha|]. cbn [fst]. apply Forall_app. split; assumption.
Qed.
Lemma safe_concat {A} (g : A -> stream) l : (forall x, In x l -> Forall safe_row (fst (g x))) -> Forall safe_row (fst (s_concat g l)).
Proof.
  induction l as [|x l IH]; intros H; [constructor|]. cbn [s_concat fold_right].
  apply safe_app; [apply H; left; reflexivity|apply IH; intros y Hy; apply H; right; exact Hy].
Qed.

Section WalkTotal.
  Variable E : env.
  Variable T : trust.
  Variable skipped : list pstr.
  Variable R : node.
  Hypothesis ND : NoDup (ids R).
  Hypothesis Hnice : forall h subs, sub (Node h subs) R -> nice h subs = true.
  Hypothesis Hskip : mem (s "_general.SliceNode") skipped = true.

  Lemma node_format_ok h subs : nice h subs = true -> exists val, node_format h = Ok val.
  Proof.
    intros H. destruct (nice_hstr _ _ H) as [c [m [Hc Hm]]]. unfold node_format.
    destruct (h_kind h) eqn:K; try (rewrite Hc, Hm; cbn [jfmt]; eauto); eauto.
    destruct (nice_json _ _ H K) as [_ [t ->]]. cbn [jfmt]. eauto.
  Qed.

  Lemma slice_skipped h subs : nice h subs = true -> h_kind h = KSlice -> is_skipped E skipped h = true.
  Proof. intros H K. unfold is_skipped. rewrite (nice_slice _ _ H K), Hskip. reflexivity. Qed.

  (* a node whose audit is empty: so is the audit of each child, as the audit of the node computes it *)
  Lemma node_clean k h subs f p : sub (Node h subs) R -> fits R k (Node h subs) -> (k <= f)%nat -> harmless R p (Node h subs) ->
    h_kind h <> KSlice -> unsafe_g E T R f p (Node h subs) = Ok [] ->
    forall c, In c subs -> exists f', f = S f' /\ unsafe_g E T R f' (push_path h p) c = Ok [].
  Proof.
    intros Hs Hf Hle Hp Hk Hu c Hc. pose proof (Hnice h subs Hs) as Hn.
    destruct k as [|k]; [destruct Hf|]. destruct f as [|f]; [lia|]. exists f. split; [reflexivity|].
    cbn [unsafe_g] in Hu. destruct (ukind_of (h_kind h)) eqn:U.
    - destruct (nothing_kinds _ U) as [K|K]; [|congruence]. destruct (nice_json _ _ Hn K) as [-> _]. destruct Hc.
    - destruct (nice_fn _ _ Hn U) as [_ ->]. destruct Hc.
    - rewrite (Hp h subs (reach_refl _ _)) in Hu. destruct (own_unsafe E T h) as [own|]; [|discriminate Hu]. cbn [bind] in Hu.
      destruct (concat_res _) as [rest|] eqn:C; [|discriminate Hu]. cbn [bind] in Hu. injection Hu as Hu.
      apply app_eq_nil in Hu. destruct Hu as [_ ->]. apply concat_res_nil in C. rewrite Forall_forall in C.
      apply C. apply in_map. exact Hc.
  Qed.

  (* what is proved of walk, by induction on the depth k of the graph below the node *)
  Definition walk_spec (k : nat) : Prop :=
    forall n, sub n R -> fits R k n -> leaf_plain n = true -> (k <= unsafe_fuel)%nat ->
    forall fuel path name level last, (k <= fuel)%nat -> harmless R path n ->
      WOK level (walk E T skipped R fuel path name level last n)
      /\ (forall f p, (k <= f)%nat -> harmless R p n -> unsafe_g E T R f p n = Ok [] ->
            Forall safe_row (fst (walk E T skipped R fuel path name level last n))).

  (* walk on a node, one unfolding *)
  Definition descend_of (fuel : nat) (path : list hkey) (level : nat) (h : hdr) (subs' : list node) : stream :=
    if twice_on_path h path then s_err ERecursion else
    s_concat (fun p => walk E T skipped R fuel (push_path h path) (slot_key (node_slot (fst p))) (S level) (snd p) (fst p))
             (combine subs' (last_flags subs')).
  Definition kids_of (fuel : nat) (path : list hkey) (level : nat) (h : hdr) (subs : list node) : stream :=
    if is_skipped E skipped h then s_ok [] else
    match h_kind h with
    | KDict =>
        match subs with
        | kt :: rest =>
            let kt' := match kt with
                       | Ref _ id => match find_id id R with Some t => t | None => kt end
                       | _ => kt
                       end in
            match kt' with
            | Node hk _ =>
                match h_kind hk with
                | KList => s_lift (unsafe E T R kt')
                             (fun uk => match uk with [] => descend_of fuel path level h rest | _ => descend_of fuel path level h subs end)
                | _ => descend_of fuel path level h subs
                end
            | _ => descend_of fuel path level h subs
            end
        | [] => s_err EKey
        end
    | _ => descend_of fuel path level h subs
    end.
  Lemma walk_node_eq fuel path name level last h subs :
    walk E T skipped R (S fuel) path name level last (Node h subs)
    = s_lift (node_format h) (fun val =>
      s_lift (self_safe E T h) (fun ss =>
      s_lift (match h_kind h with KJson => Ok [] | _ => unsafe E T R (Node h subs) end) (fun u =>
      s_cons {| r_level := level; r_key := name; r_val := val; r_self_safe := ss;
                r_safe := match u with [] => true | _ => false end; r_last := last |}
             (kids_of fuel path level h subs)))).
  Proof. reflexivity. Qed.

  Section Step.
    Variable k : nat.
    Hypothesis IH : walk_spec k.
    Variables (h : hdr) (subs : list node).
    Hypothesis Hs : sub (Node h subs) R.
    Hypothesis Hf : fits R (S k) (Node h subs).
    Hypothesis Hku : (S k <= unsafe_fuel)%nat.
    Variables (fuel : nat) (path : list hkey) (level : nat).
    Hypothesis Hle : (k <= fuel)%nat.
    Hypothesis Hp : harmless R path (Node h subs).

    Definition clean_below (st : stream) : Prop :=
      forall f p, (S k <= f)%nat -> harmless R p (Node h subs) -> unsafe_g E T R f p (Node h subs) = Ok [] -> Forall safe_row (fst st).

    Lemma descend_ok : h_kind h <> KSlice -> forall subs', incl subs' subs ->
      WOK (S level) (descend_of fuel path level h subs') /\ clean_below (descend_of fuel path level h subs').
    Proof.
      intros Hk subs' Hincl. pose proof (Hnice h subs Hs) as Hn. unfold descend_of. rewrite (harmless_not_twice R path h subs Hp).
      pose proof (nice_unskipped _ _ Hn Hk) as Hlp. rewrite forallb_forall in Hlp.
      pose proof Hf as Hf1. cbn [fits] in Hf1. rewrite Forall_forall in Hf1.
      assert (Hch : forall pr, In pr (combine subs' (last_flags subs')) -> In (fst pr) subs).
      { intros [c b] Hpr. apply Hincl. eapply in_combine_l; eauto. }
      split.
      - apply WOK_concat. intros pr Hpr. pose proof (Hch pr Hpr) as Hc.
        apply (IH (fst pr)); [eapply sub_child; eauto|apply Hf1; exact Hc|apply Hlp; exact Hc|lia|lia|eapply harmless_push; eauto].
      - intros f p Hfk Hpp Hu. apply safe_concat. intros pr Hpr. pose proof (Hch pr Hpr) as Hc.
        destruct (node_clean (S k) h subs f p Hs Hf Hfk Hpp Hk Hu (fst pr) Hc) as [f' [-> Hcu]].
        eapply (IH (fst pr)); [eapply sub_child; eauto|apply Hf1; exact Hc|apply Hlp; exact Hc|lia|lia|eapply harmless_push; eauto| | |exact Hcu];
          [lia|eapply harmless_push; eauto].
    Qed.

    Lemma kids_ok : WOK (S level) (kids_of fuel path level h subs) /\ clean_below (kids_of fuel path level h subs).
    Proof.
      pose proof (Hnice h subs Hs) as Hn. unfold kids_of.
      destruct (is_skipped E skipped h) eqn:SK; [split; [split; [reflexivity|constructor]|intros f p _ _ _; constructor]|].
      assert (Hk : h_kind h <> KSlice) by (intros K; rewrite (slice_skipped _ _ Hn K) in SK; discriminate SK).
      pose proof (descend_ok Hk) as Hdesc.
      destruct (kind_eqb (h_kind h) KDict) eqn:KD.
      2:{ destruct (h_kind h); try discriminate KD; exact (Hdesc subs (incl_refl _)). }
      assert (K : h_kind h = KDict) by (destruct (h_kind h); try discriminate KD; reflexivity). rewrite K.
      destruct subs as [|kt rest] eqn:Esubs; [exfalso; eapply nice_dict; eauto|].
      assert (Hrest : incl rest (kt :: rest)) by (intros x Hx; right; exact Hx).
      cbv zeta.
      set (kt' := match kt with Ref _ id => match find_id id R with Some t => t | None => kt end | _ => kt end).
      assert (Hkt' : forall hk sk, kt' = Node hk sk -> exists uk, unsafe E T R kt' = Ok uk).
      { intros hk sk Ekt. pose proof Hf as Hf1. cbn [fits] in Hf1. rewrite Forall_forall in Hf1. pose proof (Hf1 kt (or_introl eq_refl)) as Hfk.
        assert (Hskt : sub kt R) by (eapply sub_child; [exact Hs|left; reflexivity]).
        unfold kt' in *. destruct kt as [hk0 sk0|slk idk|slk lk].
        - apply (unsafe_total E T R Hnice k); [exact Hskt|exact Hfk|reflexivity|lia].
        - destruct k as [|k']; [destruct Hfk|]. cbn [fits] in Hfk. destruct Hfk as [t [Ht Hft]]. rewrite Ht in *.
          apply (unsafe_total E T R Hnice k'); [eapply find_id_sub; eauto|exact Hft|rewrite Ekt; reflexivity|lia].
        - discriminate Ekt. }
      destruct kt' as [hk sk|slk idk|slk lk] eqn:Ekt; try exact (Hdesc (kt :: rest) (incl_refl _)).
      destruct (kind_eqb (h_kind hk) KList) eqn:KL.
      2:{ destruct (h_kind hk); try discriminate KL; exact (Hdesc (kt :: rest) (incl_refl _)). }
      assert (K2 : h_kind hk = KList) by (destruct (h_kind hk); try discriminate KL; reflexivity). rewrite K2.
      destruct (Hkt' hk sk eq_refl) as [uk ->]. cbn [s_lift].
      destruct uk; [exact (Hdesc rest Hrest)|exact (Hdesc (kt :: rest) (incl_refl _))].
    Qed.

    Lemma node_ok name last :
      WOK level (walk E T skipped R (S fuel) path name level last (Node h subs))
      /\ (forall f p, (S k <= f)%nat -> harmless R p (Node h subs) -> unsafe_g E T R f p (Node h subs) = Ok [] ->
            Forall safe_row (fst (walk E T skipped R (S fuel) path name level last (Node h subs)))).
    Proof.
      pose proof (Hnice h subs Hs) as Hn.
      destruct (node_format_ok _ _ Hn) as [val NF]. destruct (self_safe_ok E T h subs Hn) as [ss SS].
      destruct (unsafe_total E T R Hnice (S k) (Node h subs) Hs Hf eq_refl unsafe_fuel [] Hku) as [u0 Hu0].
      destruct kids_ok as [[HK1 HK2] HK3].
      rewrite walk_node_eq, NF. cbn [s_lift]. rewrite SS. cbn [s_lift].
      destruct (kind_eqb (h_kind h) KJson) eqn:KJ.
      - assert (K : h_kind h = KJson) by (destruct (h_kind h); try discriminate KJ; reflexivity). rewrite K. cbn [s_lift].
        assert (Hnil : fst (kids_of fuel path level h subs) = []).
        { destruct (nice_json _ _ Hn K) as [-> _]. unfold kids_of. destruct (is_skipped E skipped h); [reflexivity|].
          rewrite K. unfold descend_of. rewrite (harmless_not_twice R path h [] Hp). reflexivity. }
        split.
        + split; [exact HK1|]. cbn [s_cons fst]. rewrite <- (app_nil_r (fst (kids_of fuel path level h subs))).
          apply wf_tree; [reflexivity|exact HK2|intros _; rewrite Hnil; constructor|constructor].
        + intros f p _ _ _. cbn [s_cons fst]. constructor; [reflexivity|rewrite Hnil; constructor].
      - assert (HU : (match h_kind h with KJson => Ok [] | _ => unsafe E T R (Node h subs) end) = Ok u0)
          by (unfold unsafe; rewrite Hu0; destruct (h_kind h); try reflexivity; discriminate KJ).
        rewrite HU. cbn [s_lift].
        split.
        + split; [exact HK1|]. cbn [s_cons fst]. rewrite <- (app_nil_r (fst (kids_of fuel path level h subs))).
          apply wf_tree; [reflexivity|exact HK2| |constructor].
          cbn [r_safe]. intros Hr. assert (u0 = []) by (destruct u0; [reflexivity|discriminate Hr]). subst u0.
          apply (HK3 unsafe_fuel []); [exact Hku|apply harmless_nil|exact Hu0].
        + intros f p Hfk Hpp Hu. cbn [s_cons fst].
          rewrite (unsafe_indep E T R ND (S k) (Node h subs) Hs Hf unsafe_fuel f [] p Hku Hfk (harmless_nil R _) Hpp) in Hu0.
          rewrite Hu in Hu0. injection Hu0 as <-. constructor; [reflexivity|exact (HK3 f p Hfk Hpp Hu)].
    Qed.
  End Step.

  Lemma walk_ok : forall k, walk_spec k.
  Proof.
    induction k as [|k IH]; intros n Hs Hf Hl Hku fuel path name level last Hle Hp; [destruct Hf|].
    destruct fuel as [|fuel]; [lia|]. destruct n as [h subs|sl i|sl l].
    - apply (node_ok k IH h subs Hs Hf Hku fuel path level ltac:(lia) Hp).
    - (* a reference: the memoised node, at the same level *)
      cbn [fits] in Hf. destruct Hf as [t [Ht Hft]]. cbn [walk]. rewrite Ht.
      assert (Hlt : leaf_plain t = true) by (destruct (find_id_hid _ _ _ Ht) as [hd [subs [-> _]]]; reflexivity).
      destruct (IH t (find_id_sub _ _ _ Ht) Hft Hlt ltac:(lia) fuel path name level last ltac:(lia) (harmless_ref R sl i t path Ht Hp)) as [H1 H2].
      split; [exact H1|]. intros f p Hfk Hpp Hu. destruct f as [|f]; [lia|]. cbn [unsafe_g] in Hu. rewrite Ht in Hu.
      apply (H2 f p); [lia|eapply harmless_ref; eauto|exact Hu].
    - (* a leaf that is not raw JSON yields nothing *)
      destruct l; try discriminate Hl; cbn [walk]; (split; [split; [reflexivity|constructor]|intros; constructor]).
  Qed.
End WalkTotal.

(* ================= every reference of a tree get_tree builds (from any JSON) points into the tree ================= *)
Fixpoint refs (n : node) : list hkey :=
  match n with Node _ subs => flat_map refs subs | Ref _ i => [i] | Leaf _ _ => [] end.

(* the memo only grows, holds the target of every reference made, and grows by ids of the nodes built *)
Definition rinv (m : memo) (ns : list node) (m' : memo) : Prop :=
  (forall i, In i m -> In i m') /\ (forall i, In i (flat_map refs ns) -> In i m')
  /\ (forall i, In i m' -> In i m \/ In i (flat_map ids ns)).

Lemma rinv_nil m : rinv m [] m.
Proof. repeat split; auto. intros i []. Qed.
Lemma rinv_app m a m1 b m2 : rinv m a m1 -> rinv m1 b m2 -> rinv m (a ++ b) m2.
Proof.
  intros [A1 [A2 A3]] [B1 [B2 B3]]. unfold rinv. rewrite !flat_map_app. repeat split.
  - auto.
  - intros i Hi. apply in_app_or in Hi. destruct Hi as [Hi|Hi]; auto.
  - intros i Hi. destruct (B3 i Hi) as [H|H]; [|right; apply in_or_app; auto].
    destruct (A3 i H) as [H'|H']; [auto|right; apply in_or_app; auto].
Qed.
Lemma rinv_plain m ns m' n : refs n = [] -> ids n = [] -> rinv m ns m' -> rinv m (n :: ns) m'.
Proof. intros H1 H2 [A [B C]]. unfold rinv. cbn [flat_map]. rewrite H1, H2. cbn [app]. auto. Qed.
Lemma rinv_cons m n m1 ns m2 : rinv m [n] m1 -> rinv m1 ns m2 -> rinv m (n :: ns) m2.
Proof. intros H1 H2. change (n :: ns) with ([n] ++ ns). eapply rinv_app; eauto. Qed.
Lemma rinv_or_empty m ns m' name l : rinv m ns m' -> rinv m (or_empty name l ns) m'.
Proof. destruct ns; [intros H; apply rinv_plain; [reflexivity|reflexivity|exact H]|auto]. Qed.
Lemma rinv_set_aux m h a subs m' : rinv m [Node h subs] m' -> rinv m [Node (set_aux h a) subs] m'.
Proof. intros H. exact H. Qed.

Lemma rnode sl k tag extra b m j aux h m0 subs m' :
  node_init sl k tag extra b m j aux = Ok (h, m0) -> rinv m0 subs m' -> rinv m [Node h subs] m'.
Proof.
  unfold node_init. intros H [C1 [C2 C3]].
  destruct (jindex j (K "__class__")) as [cc|]; cbn [bind] in H; [|discriminate H].
  destruct (jindex j (K "__module__")) as [cm|]; cbn [bind] in H; [|discriminate H].
  destruct (jget j (K "__id__")) as [sid|]; cbn [bind] in H; [|discriminate H].
  destruct (jtruthy sid && b).
  - destruct (jhash sid) as [hk|]; cbn [bind] in H; [|discriminate H]. injection H as <- <-.
    unfold rinv. cbn [flat_map refs ids own_ids h_id]. rewrite !app_nil_r. repeat split.
    + intros i Hi. apply C1. right. exact Hi.
    + exact C2.
    + intros i Hi. destruct (C3 i Hi) as [[<-|H]|H]; [right; left; reflexivity|left; exact H|right; right; exact H].
  - injection H as <- <-. unfold rinv. cbn [flat_map refs ids own_ids h_id]. rewrite !app_nil_r. cbn [app]. auto.
Qed.

Section Refs.
  Variable E : env.
  Variable rec : list pstr -> slot -> memo -> json -> res (node * memo).
  Hypothesis Hrec : forall extra sl m j t m', rec extra sl m j = Ok (t, m') -> rinv m [t] m'.

  Lemma sub_list_r extra name : forall js m ns m', sub_list rec extra name m js = Ok (ns, m') -> rinv m ns m'.
  Proof.
    induction js as [|j js IH]; intros m ns m' H; cbn [sub_list] in H.
    - injection H as <- <-. apply rinv_nil.
    - destruct (rec extra (SElem name) m j) as [[n m1]|] eqn:Rq; cbn [bind] in H; [|discriminate H].
      destruct (sub_list rec extra name m1 js) as [[ns' m2]|] eqn:S; cbn [bind] in H; [|discriminate H].
      injection H as <- <-. eapply rinv_cons; [eapply Hrec; eauto|eapply IH; eauto].
  Qed.
  Lemma sub_dict_r extra name : forall kvs m ns m', sub_dict rec extra name m kvs = Ok (ns, m') -> rinv m ns m'.
  Proof.
    induction kvs as [|[k j] kvs IH]; intros m ns m' H; cbn [sub_dict] in H.
    - injection H as <- <-. apply rinv_nil.
    - destruct (rec extra (SKey name k) m j) as [[n m1]|] eqn:Rq; cbn [bind] in H; [|discriminate H].
      destruct (sub_dict rec extra name m1 kvs) as [[ns' m2]|] eqn:S; cbn [bind] in H; [|discriminate H].
      injection H as <- <-. eapply rinv_cons; [eapply Hrec; eauto|eapply IH; eauto].
  Qed.
  Lemma content_child_r extra j key slotname m n m' : content_child rec extra j key slotname m = Ok (n, m') -> rinv m [n] m'.
  Proof.
    unfold content_child. intros H.
    destruct (jindex j (K "content")) as [c|]; cbn [bind] in H; [|discriminate H].
    destruct (jindex c key) as [v|]; cbn [bind] in H; [|discriminate H]. eapply Hrec; eauto.
  Qed.

  Ltac brk H :=
    repeat (cbn [bind] in H;
      match type of H with
      | bind ?r _ = Ok _ => let X := fresh "X" in destruct r eqn:X; cbn [bind] in H; [|discriminate H]
      | (let (_, _) := ?p in _) = Ok _ => destruct p
      | (match ?x with _ => _ end) = Ok _ => let X := fresh "X" in destruct x eqn:X; try discriminate H
      | (if ?b then _ else _) = Ok _ => let X := fresh "X" in destruct b eqn:X; try discriminate H
      end).
  Ltac r_tac :=
    repeat first
      [ apply rinv_nil
      | apply rinv_or_empty
      | match goal with
        | |- rinv _ (Leaf _ _ :: _) _ => apply rinv_plain; [reflexivity|reflexivity|]
        | |- rinv _ (Node _ [] :: _) _ => apply rinv_plain; [reflexivity|reflexivity|]
        | |- rinv _ (_ ++ [_]) _ => eapply rinv_app
        | H : rec _ _ ?m _ = Ok (?n, _) |- rinv ?m (?n :: _) _ => eapply rinv_cons; [exact (Hrec _ _ _ _ _ _ H)|]
        | H : content_child _ _ _ _ _ ?m = Ok (?n, _) |- rinv ?m (?n :: _) _ => eapply rinv_cons; [exact (content_child_r _ _ _ _ _ _ _ H)|]
        | H : sub_list _ _ _ ?m _ = Ok (?ns, _) |- rinv ?m ?ns _ => exact (sub_list_r _ _ _ _ _ _ H)
        | H : sub_dict _ _ _ ?m _ = Ok (?ns, _) |- rinv ?m ?ns _ => exact (sub_dict_r _ _ _ _ _ _ H)
        end ].

  Lemma build_r sl extra tag k m j t m' : build E rec sl extra tag k m j = Ok (t, m') -> rinv m [t] m'.
  Proof.
    intros H. destruct k; unfold build in H; cbv beta iota zeta in H; brk H;
      try (injection H as <- <-);
      try apply rinv_set_aux;
      (eapply rnode; [eassumption|r_tac]).
  Qed.
End Refs.

Theorem get_tree_r E proto : forall fuel extra sl m j t m',
  get_tree fuel E proto extra sl m j = Ok (t, m') -> rinv m [t] m'.
Proof.
  induction fuel as [|fuel IH]; intros extra sl m j t m' H; [discriminate H|].
  cbn [get_tree] in H.
  destruct (jget j (K "__id__")) as [sid|]; cbn [bind] in H; [|discriminate H].
  destruct (jhash sid) as [hk|]; cbn [bind] in H; [|discriminate H].
  destruct (memo_mem hk m) eqn:MM.
  { injection H as <- <-. unfold rinv. cbn [flat_map refs ids app]. repeat split; auto.
    intros i [<-|[]]. apply memo_mem_In. exact MM. }
  destruct (jindex j (K "__loader__")) as [loader|]; cbn [bind] in H; [|discriminate H].
  destruct (dispatch (e_reg E) (e_cur E) loader proto) as [[tag|]|]; cbn [bind] in H; try discriminate H.
  - destruct (kind_of_class tag) as [k|]; [|discriminate H].
    eapply build_r; [|exact H]. intros; eapply IH; eauto.
  - destruct (jindex j (K "__module__")); cbn [bind] in H; [|discriminate H].
    destruct (jindex j (K "__class__")); cbn [bind] in H; discriminate H.
Qed.

Lemma refs_sub sl i : forall n, sub (Ref sl i) n -> In i (refs n).
Proof.
  intros n H. remember (Ref sl i) as x eqn:Ex. induction H as [|h subs y Hy Hs IH]; [subst; left; reflexivity|].
  cbn [refs]. apply in_flat_map. exists y. split; [exact Hy|apply IH; exact Ex].
Qed.

Theorem root_refs_resolve E schema t m : root_tree E schema = Ok (t, m) ->
  forall sl i, sub (Ref sl i) t -> exists x, find_id i t = Some x.
Proof.
  unfold root_tree. destruct (jindex schema (K "protocol")); cbn [bind]; [|intros X; discriminate X].
  intros H sl i Hs. apply get_tree_r in H. destruct H as [_ [H2 H3]].
  apply find_id_exists. cbn [flat_map] in H2, H3. rewrite app_nil_r in H2, H3.
  destruct (H3 i (H2 i (refs_sub sl i t Hs))) as [[]|Hi]. exact Hi.
Qed.

Lemma walk_node_nonempty E T skipped R fuel path name level last h subs :
  snd (walk E T skipped R fuel path name level last (Node h subs)) = None ->
  fst (walk E T skipped R fuel path name level last (Node h subs)) <> [].
Proof.
  destruct fuel as [|fuel]; [cbn; discriminate|]. cbn [walk]. unfold s_lift.
  repeat match goal with |- snd (match ?x with Ok _ => _ | Raise _ => _ end) = None -> _ => destruct x; [|cbn; discriminate] end.
  intros _. cbn [s_cons fst]. discriminate.
Qed.

(* ================= _traverse_tree on a pre-order forest ================= *)
Fixpoint lvl_ok (sh : show_mode) (prev : nat) (rows : list row) : Prop :=
  match rows with
  | [] => True
  | r :: rs => if visible sh r then (r_level r <= S prev)%nat /\ lvl_ok sh (r_level r) rs else lvl_ok sh prev rs
  end.
Fixpoint last_vis (sh : show_mode) (prev : nat) (rows : list row) : nat :=
  match rows with
  | [] => prev
  | r :: rs => if visible sh r then last_vis sh (r_level r) rs else last_vis sh prev rs
  end.

Lemma traverse_lvl sh : forall rows prev, lvl_ok sh prev rows -> traverse sh prev rows None = Ok (filter (visible sh) rows).
Proof.
  induction rows as [|r rs IH]; intros prev H; [reflexivity|]. cbn [lvl_ok traverse filter] in *.
  destruct (visible sh r); cbn [negb]; [|apply IH; exact H]. destruct H as [H1 H2].
  replace (Nat.ltb (S prev) (r_level r)) with false by (symmetry; apply Nat.ltb_ge; exact H1).
  rewrite (IH _ H2). reflexivity.
Qed.

Lemma lvl_ok_app sh : forall a prev b, lvl_ok sh prev a -> lvl_ok sh (last_vis sh prev a) b -> lvl_ok sh prev (a ++ b).
Proof.
  induction a as [|r a IH]; intros prev b Ha Hb; [exact Hb|]. cbn [app lvl_ok last_vis] in *.
  destruct (visible sh r); [destruct Ha as [H1 H2]; split; [exact H1|apply IH; assumption]|apply IH; assumption].
Qed.
Lemma last_vis_app sh : forall a prev b, last_vis sh prev (a ++ b) = last_vis sh (last_vis sh prev a) b.
Proof. induction a as [|r a IH]; intros prev b; [reflexivity|]. cbn [app last_vis]. destruct (visible sh r); apply IH. Qed.
Lemma invisible_skip sh : forall a prev, Forall (fun x => visible sh x = false) a -> lvl_ok sh prev a /\ last_vis sh prev a = prev.
Proof.
  induction a as [|r a IH]; intros prev H; [split; [exact I|reflexivity]|]. inversion H as [|? ? Hr Ha]; subst.
  cbn [lvl_ok last_vis]. rewrite Hr. apply IH. exact Ha.
Qed.

(* a hidden row is a fully safe row, and fully safe rows are hidden: holds of show = all and show = untrusted, not of show = trusted *)
Definition sh_ok (sh : show_mode) : Prop :=
  forall r, visible sh r = false -> r_safe r = true /\ forall x, r_safe x = true -> visible sh x = false.
Lemma sh_ok_all : sh_ok ShowAll.
Proof. intros r H. discriminate H. Qed.
Lemma sh_ok_untrusted : sh_ok ShowUntrusted.
Proof.
  intros r H. cbn [visible] in H. apply negb_false_iff in H. split; [exact H|]. intros x Hx. cbn [visible]. rewrite Hx. reflexivity.
Qed.

Lemma forest_lvl sh : sh_ok sh -> forall L rows, wforest L rows -> forall prev, (L <= S prev)%nat ->
  lvl_ok sh prev rows /\ (L <= S (last_vis sh prev rows))%nat.
Proof.
  intros Hsh L rows H. induction H as [L|L r kids rest Hl Hk IHk Hs Hr IHr]; intros prev Hp; [split; [exact I|exact Hp]|].
  cbn [lvl_ok last_vis]. destruct (visible sh r) eqn:V.
  - rewrite Hl. destruct (IHk L (le_n _)) as [K1 K2]. destruct (IHr (last_vis sh L kids) ltac:(lia)) as [R1 R2].
    rewrite last_vis_app. split; [split; [exact Hp|apply lvl_ok_app; assumption]|exact R2].
  - destruct (Hsh r V) as [Hsafe Hhide].
    assert (Hinv : Forall (fun x => visible sh x = false) kids).
    { eapply Forall_impl; [|exact (Hs Hsafe)]. intros x Hx. apply Hhide. exact Hx. }
    destruct (invisible_skip sh kids prev Hinv) as [K1 K2]. destruct (IHr prev Hp) as [R1 R2].
    rewrite last_vis_app, K2. split; [apply lvl_ok_app; [exact K1|rewrite K2; exact R1]|exact R2].
Qed.

Lemma traverse_all_forest sh st r rs : sh_ok sh -> WOK (r_level r) st -> fst st = r :: rs ->
  traverse_all sh st = Ok (r :: filter (visible sh) rs).
Proof.
  intros Hsh [H1 H2] Hf. unfold traverse_all. rewrite Hf, H1. rewrite Hf in H2.
  inversion H2 as [|L r' kids rest Hl Hk Hs Hr]; subst.
  assert (Hlv : lvl_ok sh (r_level r) (kids ++ rest)).
  { destruct (forest_lvl sh Hsh _ _ Hk (r_level r) (le_n _)) as [K1 K2].
    apply lvl_ok_app; [exact K1|]. apply (forest_lvl sh Hsh _ _ Hr). lia. }
  rewrite (traverse_lvl sh _ _ Hlv). reflexivity.
Qed.

(* ================= ranked trees (VisTotalPre.good) have bounded depth through references ================= *)
Section GoodGraph.
  Variable base : Z.
  Variable Objs : pval -> Prop.
  Hypothesis Ofun : forall a b, Objs a -> Objs b -> pid a = pid b -> a = b.
  Hypothesis Oid : forall a, Objs a -> (0 < pid a < base)%Z.
  Variable R : node.
  Hypothesis Hres : forall sl i, sub (Ref sl i) R -> exists x, find_id i R = Some x.
  Variable r0 : nat.
  Hypothesis HR : good base Objs r0 R.

  Lemma good_sub x n : sub x n -> forall r, good base Objs r n -> exists r', good base Objs r' x.
  Proof.
    induction 1 as [|h subs y Hy Hs IH]; intros r Hg; [eauto|].
    inversion Hg as [| |r1 h1 subs1 w Hw Hi Hn Hnice Hall|r1 h1 subs1 z Hz Hi Hnice Hr1 Hall]; subst;
      rewrite Forall_forall in Hall; eapply IH; apply Hall; exact Hy.
  Qed.

  Lemma good_nice h subs : sub (Node h subs) R -> nice h subs = true.
  Proof. intros Hs. destruct (good_sub _ _ Hs _ HR) as [r' Hg]. inversion Hg; subst; assumption. Qed.

  Lemma good_fits : forall k x, sub x R -> good base Objs k x -> fits R (2 * k + 1) x.
  Proof.
    induction k as [k IH] using lt_wf_ind. intros x Hs Hg. replace (2 * k + 1)%nat with (S (2 * k)) by lia.
    inversion Hg as [r sl l|r sl w Hw Hn|r h subs w Hw Hi Hn Hnice Hall|r h subs z Hz Hi Hnice Hr1 Hall]; subst; cbn [fits].
    - exact I.
    - destruct (Hres sl _ Hs) as [t Ht]. exists t. split; [exact Ht|].
      destruct (find_id_hid _ _ _ Ht) as [hd [subs [-> Hi]]]. pose proof (find_id_sub _ _ _ Ht) as Hst.
      destruct (good_sub _ _ Hst _ HR) as [r' Hg']. pose proof (need_pos w) as Hnp.
      inversion Hg' as [| |r1 h1 subs1 w' Hw' Hi' Hn' Hnice' Hall'|r1 h1 subs1 z Hz Hi' Hnice' Hr1 Hall']; subst.
      + assert (Hk : key (pid w') = key (pid w)) by congruence. apply key_inj in Hk. assert (w' = w) by (apply Ofun; auto). subst w'.
        replace (2 * k)%nat with (S (2 * k - 1)) by lia. cbn [fits]. rewrite Forall_forall in *. intros c Hc.
        eapply fits_mono; [apply (IH (need w - 1)%nat); [lia|eapply sub_child; eauto|apply Hall'; exact Hc]|lia].
      + assert (Hk : key z = key (pid w)) by congruence. apply key_inj in Hk. pose proof (Oid _ Hw). lia.
    - pose proof (need_pos w) as Hnp. rewrite Forall_forall in *. intros c Hc.
      eapply fits_mono; [apply (IH (need w - 1)%nat); [lia|eapply sub_child; eauto|apply Hall; exact Hc]|lia].
    - rewrite Forall_forall in *. intros c Hc.
      eapply fits_mono; [apply (IH (k - 1)%nat); [lia|eapply sub_child; eauto|apply Hall; exact Hc]|lia].
  Qed.
End GoodGraph.

(* ================= the tree of a dumped value of the fragment; visualize on it ================= *)
Lemma fuel_bounds : (default_fuel <= 400)%nat /\ (801 <= walk_fuel)%nat /\ (801 <= unsafe_fuel)%nat.
Proof. repeat split; apply Nat.leb_le; vm_compute; reflexivity. Qed.

Lemma filter_all {A} (l : list A) : filter (fun _ => true) l = l.
Proof. induction l as [|x l IH]; [reflexivity|]. cbn [filter]. rewrite IH. reflexivity. Qed.

Section Dumped.
  Variables (F : cfacts) (D : denv) (base : Z) (v : pval) (E : env) (a : archive).
  Hypothesis Hcur : e_cur E = dn_cur D.
  Hypothesis Hreg : reg_ok (e_reg E) (e_cur E) = true.
  Hypothesis Hsane : facts_sane F = true.
  Hypothesis Hg : c05_guard F D base v = true.
  Hypothesis Hd : dumps_model D base v = Ok a.
  Hypothesis Hmem : e_members E = map fst (a_members a).
  Let Objs : pval -> Prop := fun w => In w (objs D v).

  Lemma dumped_tree : exists t m,
    root_tree E (a_schema a) = Ok (t, m) /\ good base Objs (need v) t /\ notleaf t = true /\ (need v <= default_fuel)%nat
    /\ (forall x y, Objs x -> Objs y -> pid x = pid y -> x = y) /\ (forall x, Objs x -> (0 < pid x < base)%Z).
  Proof.
    pose proof Hg as Hg0. unfold c05_guard in Hg0. apply andb_prop in Hg0. destruct Hg0 as [Hg0 Hn]. apply andb_prop in Hg0. destruct Hg0 as [Hf Hw].
    apply Nat.leb_le in Hn. destruct (objs_wf_fun _ _ Hw) as [Ofun Oid].
    pose proof (fragb_vok D F (objs D v) v Hf (fun y Hy => Hy)) as Hv.
    pose proof Hd as Hd0. unfold dumps_model in Hd0.
    destruct (get_state D v (init_dst base)) as [[j st]|] eqn:E0; [|discriminate Hd0]. cbn [bind] in Hd0.
    destruct (root_fields _ _ _ _ _ E0) as [kv [-> [Hp _]]].
    destruct (d_late st); [discriminate Hd0|].
    assert (Ha : a = {| a_schema := JObj (kv ++ [(CodecDump.K "protocol", JInt (dn_cur D)); (CodecDump.K "_skops_version", JStr (dn_version D))]);
                        a_members := d_members st |}) by (injection Hd0 as Hd1; symmetry; exact Hd1).
    rewrite Ha in Hmem. cbn [a_members] in Hmem.
    set (C := {| c_env := E; c_members := d_members st; c_namedtuples := f_namedtuples F; c_generic := f_generic F;
                 c_missing := f_missing F; c_hkinds := f_hkinds F |}).
    destruct (share_roundtrip D F C base v _ st (conj eq_refl eq_refl) eq_refl eq_refl Hmem Hsane Hreg Hg E0) as [_ Hl].
    unfold load_state in Hl. cbn [c_env C] in Hl.
    destruct (get_tree default_fuel E (JInt (e_cur E)) [] (SOne (GetTree.K "root")) [] (JObj kv)) as [[t m']|] eqn:Ht; [|discriminate Hl].
    exists t, m'. split.
    { rewrite Ha. cbn [a_schema]. unfold root_tree.
      assert (Hpr : jindex (JObj (kv ++ [(CodecDump.K "protocol", JInt (dn_cur D)); (CodecDump.K "_skops_version", JStr (dn_version D))])) (GetTree.K "protocol")
                    = Ok (JInt (dn_cur D))).
      { cbn [jindex]. rewrite (dget_app_none _ _ _ Hp). reflexivity. }
      rewrite Hpr. cbn [bind]. rewrite get_tree_ext. rewrite <- Hcur. exact Ht. }
    destruct (vok_good D F E base Objs Oid Hreg v Hv _ _ _ E0 ltac:(cbn; lia)) as [_ H].
    destruct (H default_fuel [] (SOne (GetTree.K "root")) t m' Ht ltac:(intros h Hh; discriminate Hh)) as [_ [Hgood Hnl]].
    split; [exact Hgood|split; [exact Hnl|split; [exact Hn|split; [exact Ofun|exact Oid]]]].
  Qed.

  Variable skipped : list pstr.
  Hypothesis Hskip : mem (s "_general.SliceNode") skipped = true.
  Variable T : trust.

  (* the row generator completes; the default sink completes for show = all (every row) and show = untrusted
     (the root and the rows that are not fully safe) *)
  Theorem visualize_total_dumped : exists r rs,
    visualize_rows E skipped (a_schema a) T = Ok (r :: rs)
    /\ visualize E skipped (a_schema a) T ShowAll = Ok (r :: rs)
    /\ visualize E skipped (a_schema a) T ShowUntrusted = Ok (r :: filter (fun x => negb (r_safe x)) rs)
    /\ r_level r = O.
  Proof.
    destruct dumped_tree as [t [m [Hrt [Hgood [Hnl [Hn [Ofun Oid]]]]]]].
    pose proof (root_tree_ids_unique _ _ _ _ Hrt) as ND. pose proof (root_refs_resolve _ _ _ _ Hrt) as Hres.
    pose proof (good_nice base Objs t (need v) Hgood) as Hnice.
    destruct fuel_bounds as [B1 [B2 B3]].
    assert (Hfit : fits t 801 t).
    { eapply fits_mono; [apply (good_fits base Objs Ofun Oid t Hres (need v) Hgood (need v) t (sub_refl _) Hgood)|lia]. }
    destruct t as [h subs|sl i|sl l]; [|destruct (Hres sl i (sub_refl _)) as [x Hx]; discriminate Hx|discriminate Hnl].
    set (t := Node h subs) in *.
    set (st := walk E T skipped t walk_fuel [] (s "root") 0 false t).
    assert (Hst : visualize_stream E skipped (a_schema a) T = Ok st) by (unfold visualize_stream; rewrite Hrt; reflexivity).
    destruct (walk_ok E T skipped t ND Hnice Hskip 801 t (sub_refl _) Hfit eq_refl B3 walk_fuel [] (s "root") 0%nat false B2 (harmless_nil t t)) as [[W1 W2] _].
    fold st in W1, W2.
    destruct (fst st) as [|r rs] eqn:Hfst; [exfalso; apply (walk_node_nonempty E T skipped t walk_fuel [] (s "root") 0%nat false h subs W1); exact Hfst|].
    assert (Hr0 : r_level r = O) by (inversion W2; assumption).
    assert (HW : WOK (r_level r) st) by (rewrite Hr0; split; [exact W1|rewrite Hfst; exact W2]).
    exists r, rs. split; [|split; [|split; [|exact Hr0]]].
    - unfold visualize_rows. rewrite Hst. cbn [bind]. rewrite W1, Hfst. reflexivity.
    - unfold visualize. rewrite Hst. cbn [bind]. rewrite (traverse_all_forest ShowAll st r rs sh_ok_all HW Hfst).
      change (visible ShowAll) with (fun _ : row => true). rewrite filter_all. reflexivity.
    - unfold visualize. rewrite Hst. cbn [bind]. rewrite (traverse_all_forest ShowUntrusted st r rs sh_ok_untrusted HW Hfst). reflexivity.
  Qed.
End Dumped.
