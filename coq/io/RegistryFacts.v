From Skv Require Import PyStr PyStrFacts Json Registry.
From Coq Require Import Lia.
Open Scope Z_scope.

Lemma pkey_eqb p q : hkey_eqb (pkey p) (HNum (2 * q)) = (p =? q).
Proof.
  unfold pkey; cbn [hkey_eqb]. destruct (Z.eqb_spec p q) as [->|N].
  - apply Z.eqb_refl.
  - apply Z.eqb_neq. lia.
Qed.

Lemma find_some_in reg l p c :
  find reg l (pkey p) = Some c -> In (l, p, c) reg.
Proof.
  induction reg as [|[[l' q] c'] reg IH]; cbn [find]; [discriminate|].
  rewrite pkey_eqb.
  destruct (pstr_eqb l l') eqn:El; cbn [andb].
  - destruct (Z.eqb_spec p q) as [->|N].
    + intros H; injection H as ->. apply pstr_eqb_eq in El. subst. left. reflexivity.
    + intros H. right. auto.
  - intros H. right. auto.
Qed.

Lemma gap_step reg cur l q :
  gap_free reg cur = true -> registered reg l q = true -> q < cur ->
  q = 0 \/ (0 < q /\ registered reg l (q - 1) = true).
Proof.
  intros G R Hq. unfold registered in R.
  destruct (find reg l (pkey q)) as [c|] eqn:F; [|discriminate].
  apply find_some_in in F.
  unfold gap_free in G. rewrite forallb_forall in G. specialize (G _ F). simpl in G.
  apply orb_true_iff in G as [G|G].
  - apply orb_true_iff in G as [G|G].
    + apply Z.leb_le in G. lia.
    + apply Z.eqb_eq in G. auto.
  - apply andb_true_iff in G as [G1 G2]. apply Z.ltb_lt in G1. auto.
Qed.

(* if (l,p) is not registered then nothing between p and cur is *)
Lemma gap_none_between reg cur l p :
  gap_free reg cur = true -> 0 <= p -> registered reg l p = false ->
  forall n : nat, p + Z.of_nat n < cur -> registered reg l (p + Z.of_nat n) = false.
Proof.
  intros G Hp Np n. induction n as [|n IH]; intros Hn.
  - replace (p + Z.of_nat 0) with p by lia. exact Np.
  - destruct (registered reg l (p + Z.of_nat (S n))) eqn:R; [|reflexivity].
    destruct (gap_step _ _ _ _ G R Hn) as [E|[_ R']]; [lia|].
    replace (p + Z.of_nat (S n) - 1) with (p + Z.of_nat n) in R' by lia.
    rewrite IH in R'; [discriminate | lia].
Qed.

Lemma spec_from_skip reg l p n :
  (forall k : nat, (k < n)%nat -> registered reg l (p + Z.of_nat k) = false) ->
  forall m, spec_from reg l p (n + m) = spec_from reg l (p + Z.of_nat n) m.
Proof.
  revert p; induction n as [|n IH]; intros p H m.
  - simpl. f_equal. lia.
  - simpl. pose proof (H O ltac:(lia)) as H0. unfold registered in H0.
    replace (p + Z.of_nat 0) with p in H0 by lia.
    destruct (find reg l (pkey p)); [discriminate|].
    rewrite IH.
    + f_equal. lia.
    + intros k Hk. specialize (H (S k) ltac:(lia)).
      replace (p + 1 + Z.of_nat k) with (p + Z.of_nat (S k)) by lia. exact H.
Qed.

Theorem dispatch_generic reg cur :
  gap_free reg cur = true ->
  forall l p, 0 <= p <= cur ->
    lookup reg cur l (pkey p) = lookup_spec reg cur l p.
Proof.
  intros G l p Hp. unfold lookup, lookup_spec.
  destruct (find reg l (pkey p)) as [c|] eqn:F.
  - replace (Z.to_nat (cur - p + 1)) with (S (Z.to_nat (cur - p))) by lia.
    simpl. rewrite F. reflexivity.
  - assert (Np : registered reg l p = false) by (unfold registered; rewrite F; reflexivity).
    replace (Z.to_nat (cur - p + 1)) with (Z.to_nat (cur - p) + 1)%nat by lia.
    rewrite spec_from_skip.
    + replace (p + Z.of_nat (Z.to_nat (cur - p))) with cur by lia.
      simpl. destruct (find reg l (pkey cur)); reflexivity.
    + intros k Hk. apply (gap_none_between reg cur); try assumption; lia.
Qed.

(* a registry with a gap on which "exact match else current" is NOT the
   smallest registered protocol >= p: kind registered at 1 and 2, archive at 0 *)
Definition gap_reg : registry := [([65%N], 1, [49%N]); ([65%N], 2, [50%N])].
Lemma gap_refuted :
  gap_free gap_reg 2 = false /\
  lookup gap_reg 2 [65%N] (pkey 0) <> lookup_spec gap_reg 2 [65%N] 0.
Proof. split; [reflexivity | vm_compute; discriminate]. Qed.

Theorem unchanged_kinds reg cur l :
  (forall q, q <> cur -> registered reg l q = false) ->
  forall p, lookup reg cur l (pkey p) = find reg l (pkey cur).
Proof.
  intros H p. unfold lookup.
  destruct (Z.eq_dec p cur) as [->|N].
  - destruct (find reg l (pkey cur)); reflexivity.
  - specialize (H p N). unfold registered in H.
    destruct (find reg l (pkey p)); [discriminate | reflexivity].
Qed.

Theorem unregistered reg cur l :
  (forall pk, find reg l pk = None) -> forall pk, lookup reg cur l pk = None.
Proof. intros H pk. unfold lookup. rewrite H, H. reflexivity. Qed.

Theorem emits_registered reg cur emits :
  all_registered reg cur emits = true ->
  forall l, In l emits -> exists c, find reg l (pkey cur) = Some c.
Proof.
  unfold all_registered. rewrite forallb_forall. intros H l Hl. specialize (H l Hl).
  unfold registered in H. destruct (find reg l (pkey cur)) as [c|]; [eauto | discriminate].
Qed.
