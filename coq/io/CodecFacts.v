(* C05 facts: loads(dumps(v)) = v for a fragment of the supported grammar, by structural induction. *)
From Skv Require Import CodecGuards CodecWfFacts PyValInd.
From Coq Require Import Lia.

Definition key (i : Z) : hkey := HNum (2 * i).

(* every __id__ written in a schema *)
Fixpoint jids (j : json) : list Z :=
  match j with
  | JObj kv =>
      (fix go (f : list (pstr * json)) : list Z :=
         match f with
         | [] => []
         | (k, x) :: f' => (if pstr_eqb k (s "__id__") then match x with JInt z => [z] | _ => jids x end else jids x) ++ go f'
         end) kv
  | JArr xs => (fix go (l : list json) : list Z := match l with [] => [] | x :: l' => jids x ++ go l' end) xs
  | _ => []
  end.
Definition jids_list (l : list json) : list Z := flat_map jids l.
Lemma jids_arr l : jids (JArr l) = jids_list l.
Proof. cbn [jids]. unfold jids_list. induction l as [|x l IH]; [reflexivity|]. cbn [flat_map]. rewrite <- IH. reflexivity. Qed.

Definition zmem (h : hkey) (l : list Z) : bool := existsb (fun i => hkey_eqb h (key i)) l.

(* the fragment covered by the induction: JSON scalars, nested list / tuple / set of exact builtin class,
   slices, function and type names *)
Section Frag.
  Variable F : cfacts.
  Fixpoint frag (v : pval) {struct v} : bool :=
    let fix all (l : list pval) {struct l} : bool := match l with [] => true | x :: l' => frag x && all l' end in
    match v with
    | PScalar _ sc => scalar_rt_ok sc
    | PSeq q _ m c nt l =>
        negb nt && all l
        && pstr_eqb m (s "builtins")
        && match q with QList => pstr_eqb c (s "list") | QTuple => pstr_eqb c (s "tuple") | QSet => pstr_eqb c (s "set") end
    | PSlice _ a b c => bound_supported a && bound_supported b && bound_supported c
    | PFunc _ m c | PType _ m c => resolvable F m c
    | _ => false
    end.
End Frag.

Fixpoint need (v : pval) : nat :=
  match v with
  | PSeq _ _ _ _ _ l => S (fold_right (fun x acc => Nat.max (need x) acc) O l)
  | _ => 1
  end.

(* the facts about classes are consistent with what the three builtin sequence names denote *)
Definition facts_sane (F : cfacts) : bool :=
  negb (mem (s "builtins.tuple") (f_namedtuples F))
  && negb (mem (s "builtins.list") (f_missing F)) && negb (mem (s "builtins.tuple") (f_missing F))
  && negb (mem (s "builtins.set") (f_missing F)).

(* loaders of the fragment and the classes get_tree must select for them *)
Definition frag_loaders : list (pstr * pstr) :=
  [(s "JsonNode", s "_general.JsonNode"); (s "ListNode", s "_general.ListNode"); (s "TupleNode", s "_general.TupleNode");
   (s "SetNode", s "_general.SetNode"); (s "SliceNode", s "_general.SliceNode"); (s "FunctionNode", s "_general.FunctionNode");
   (s "TypeNode", s "_general.TypeNode")].
Definition reg_ok (reg : registry) (cur : Z) : bool :=
  forallb (fun lt => match lookup reg cur (fst lt) (pkey cur) with Some t => pstr_eqb t (snd lt) | None => false end) frag_loaders.

Lemma pstr_eqb_refl t : pstr_eqb t t = true.
Proof. induction t as [|c t IH]; cbn; [reflexivity|]. rewrite N.eqb_refl. exact IH. Qed.
Lemma pstr_eqb_true a b : pstr_eqb a b = true -> a = b.
Proof.
  revert b. induction a as [|x a IH]; destruct b as [|y b]; cbn; try discriminate; [reflexivity|].
  intros H. apply andb_prop in H. destruct H as [H1 H2]. apply N.eqb_eq in H1. subst. f_equal. auto.
Qed.
Lemma scalar_eqb_true a b : scalar_eqb a b = true -> a = b.
Proof.
  destruct a, b; cbn; try discriminate; intros H; try reflexivity.
  - f_equal. apply Bool.eqb_prop. exact H.
  - f_equal. apply Z.eqb_eq. exact H.
  - f_equal. apply pstr_eqb_true. exact H.
  - f_equal. apply pstr_eqb_true. exact H.
Qed.
Lemma key_div i : (2 * i / 2 = i)%Z.
Proof. rewrite Z.mul_comm. apply Z.div_mul. lia. Qed.

Section RT.
  Variable D : denv.
  Variable F : cfacts.
  Variable E : env.
  Variable C : cenv.
  Variable files : list (hkey * json).
  Hypothesis HC : c_namedtuples C = f_namedtuples F /\ c_missing C = f_missing F.
  Hypothesis Hsane : facts_sane F = true.
  Hypothesis Hreg : reg_ok (e_reg E) (e_cur E) = true.
  Let proto : json := JInt (e_cur E).

  Lemma disp l tag : In (l, tag) frag_loaders -> dispatch (e_reg E) (e_cur E) (JStr l) proto = Ok (Some tag).
  Proof.
    intros Hin. unfold dispatch, proto. cbn [jhash bind]. f_equal. f_equal.
    unfold reg_ok in Hreg. rewrite forallb_forall in Hreg. specialize (Hreg _ Hin). cbn [fst snd] in Hreg.
    unfold pkey in Hreg. destruct (lookup (e_reg E) (e_cur E) l (HNum (2 * e_cur E))) as [t|]; [|discriminate].
    apply pstr_eqb_true in Hreg. subst. reflexivity.
  Qed.

  Lemma jget_id c mo l fields id : dget (s "__id__") fields = None ->
    jget (node_state c mo l fields id) (s "__id__") = Ok (JInt id).
  Proof.
    intros Hf. unfold node_state. cbn [jget].
    match goal with |- context [dget ?k (?a :: ?b :: ?c0 :: ?r)] => change (dget k (a :: b :: c0 :: r)) with (dget k r) end.
    rewrite (dget_app_none _ _ _ Hf). reflexivity.
  Qed.

  Definition mkh (sl : slot) (k : kind) (tag : pstr) (id : Z) (c mo : pstr) (aux : json) : hdr :=
    {| h_slot := sl; h_kind := k; h_tag := tag; h_id := Some (key id); h_extra := []; h_class := JStr c; h_module := JStr mo; h_aux := aux |}.

  Lemma init_eq sl k tag m c mo l fields id : dget (s "__id__") fields = None -> id <> 0%Z ->
    node_init sl k tag [] true m (node_state c mo l fields id) JNull = Ok (mkh sl k tag id c mo JNull, key id :: m).
  Proof.
    intros Hf Hid. unfold node_init. rewrite (jget_id _ _ _ _ _ Hf).
    change (jindex (node_state c mo l fields id) (GetTree.K "__class__")) with (Ok (A:=json) (JStr c)).
    change (jindex (node_state c mo l fields id) (GetTree.K "__module__")) with (Ok (A:=json) (JStr mo)).
    cbn [bind jtruthy]. replace (id =? 0)%Z with false by (symmetry; apply Z.eqb_neq; exact Hid).
    cbn [negb andb jhash bind]. reflexivity.
  Qed.

  Lemma gt_step f sl m c mo l fields id tag k :
    dget (s "__id__") fields = None -> memo_mem (key id) m = false ->
    In (l, tag) frag_loaders -> kind_of_class tag = Some k ->
    get_tree (S f) E proto [] sl m (node_state c mo l fields id)
    = build E (get_tree f E proto) sl [] tag k m (node_state c mo l fields id).
  Proof.
    intros Hf Hm Hl Hk. cbn [get_tree]. rewrite (jget_id _ _ _ _ _ Hf). cbn [bind jhash].
    change (HNum (2 * id)) with (key id). rewrite Hm.
    change (jindex (node_state c mo l fields id) (GetTree.K "__loader__")) with (Ok (A:=json) (JStr l)).
    cbn [bind]. rewrite (disp _ _ Hl). cbn [bind]. rewrite Hk. reflexivity.
  Qed.

  Definition isnode (n : node) : bool := match n with Node _ _ => true | _ => false end.

  Lemma zmem_false i l : ~ In i l -> zmem (key i) l = false.
  Proof.
    induction l as [|x l IH]; intros H; [reflexivity|]. cbn [zmem existsb]. unfold zmem in IH. rewrite IH by (intro; apply H; right; assumption).
    rewrite orb_false_r. cbn [key hkey_eqb]. apply Z.eqb_neq. intro Heq. apply H. left. lia.
  Qed.
  Lemma zmem_app h a b : zmem h (a ++ b) = zmem h a || zmem h b.
  Proof. unfold zmem. apply existsb_app. Qed.

  Definition Q (v : pval) : Prop :=
    forall st j st', get_state D v st = Ok (j, st') ->
      d_late st' = d_late st /\
      forall fuel m sl, (need v <= fuel)%nat -> NoDup (jids j) ->
        (forall i, In i (jids j) -> i <> 0%Z /\ memo_mem (key i) m = false) ->
        exists n m', get_tree fuel E proto [] sl m j = Ok (n, m') /\ isnode n = true
          /\ (forall h, memo_mem h m' = memo_mem h m || zmem h (jids j))
          /\ (forall root cf path, (need v <= cf)%nat -> (forall i, In i (jids j) -> memo_mem (key i) path = false) ->
                construct_val C files root cf path n = Ok v).

  Lemma NoDup_app_inv {A} (a b : list A) : NoDup (a ++ b) -> NoDup a /\ NoDup b /\ (forall x, In x a -> ~ In x b).
  Proof.
    induction a as [|x a IH]; cbn [app]; intros H.
    - split; [constructor|]. split; [assumption|]. intros ? [].
    - inversion H as [|? ? Hx Hr]; subst. destruct (IH Hr) as [Ha [Hb Hd]]. split.
      + constructor; [|assumption]. intro Hi. apply Hx. apply in_or_app. left. assumption.
      + split; [assumption|]. intros y [<-|Hy]; [|auto]. intro Hi. apply Hx. apply in_or_app. right. assumption.
  Qed.

  Lemma states_rt l : Forall (fun x => frag F x = true -> Q x) l -> forallb (frag F) l = true ->
    forall st js st', states_of (fun x s0 => get_state D x s0) l st = Ok (js, st') ->
      d_late st' = d_late st /\
      forall fuel m name, (forall x, In x l -> (need x <= fuel)%nat) -> NoDup (jids_list js) ->
        (forall i, In i (jids_list js) -> i <> 0%Z /\ memo_mem (key i) m = false) ->
        exists ns m', sub_list (get_tree fuel E proto) [] name m js = Ok (ns, m') /\ forallb isnode ns = true
          /\ length ns = length l
          /\ (forall h, memo_mem h m' = memo_mem h m || zmem h (jids_list js))
          /\ (forall root cf path, (forall x, In x l -> (need x <= cf)%nat) -> (forall i, In i (jids_list js) -> memo_mem (key i) path = false) ->
                mapM (construct_val C files root cf path) ns = Ok l).
  Proof.
    induction 1 as [|x l Hx Hl IH]; intros Hf st js st' H; cbn [states_of] in H.
    - injection H as <- <-. split; [reflexivity|]. intros fuel m name _ _ _. exists [], m. cbn [sub_list]. split; [reflexivity|].
      split; [reflexivity|]. split; [reflexivity|]. split; [intros; cbn; rewrite orb_false_r; reflexivity|]. intros. reflexivity.
    - cbn [forallb] in Hf. apply andb_prop in Hf. destruct Hf as [Hfx Hfl].
      inv_bind H. destruct (Hx Hfx _ _ _ E0) as [Hl1 Hx1]. destruct (IH Hfl _ _ _ E1) as [Hl2 IH1].
      split; [congruence|]. intros fuel m name Hn Hnd Hfresh. cbn [jids_list flat_map] in Hnd, Hfresh.
      destruct (NoDup_app_inv _ _ Hnd) as [Hnd1 [Hnd2 Hdis]].
      destruct (Hx1 fuel m (SElem name) (Hn _ (or_introl eq_refl)) Hnd1 (fun i Hi => Hfresh i (in_or_app _ _ _ (or_introl Hi))))
        as [n [m1 [Hg [Hnode [Hm1 Hc1]]]]].
      destruct (IH1 fuel m1 name (fun y Hy => Hn y (or_intror Hy)) Hnd2) as [ns [m2 [Hg2 [Hnodes [Hlen [Hm2 Hc2]]]]]].
      { intros i Hi. split; [apply (Hfresh i); apply in_or_app; right; exact Hi|].
        rewrite Hm1. rewrite (proj2 (Hfresh i (in_or_app _ _ _ (or_intror Hi)))). cbn [orb].
        apply zmem_false. intro Hin. exact (Hdis _ Hin Hi). }
      exists (n :: ns), m2. cbn [sub_list]. rewrite Hg. cbn [bind]. rewrite Hg2. cbn [bind]. split; [reflexivity|].
      split; [cbn [forallb]; rewrite Hnode, Hnodes; reflexivity|]. split; [cbn [length]; congruence|].
      split.
      + intros h. rewrite Hm2, Hm1. cbn [jids_list flat_map]. rewrite zmem_app, orb_assoc. reflexivity.
      + intros root cf path Hcf Hp. cbn [mapM].
        rewrite (Hc1 root cf path (Hcf _ (or_introl eq_refl)) (fun i Hi => Hp i (in_or_app _ _ _ (or_introl Hi)))). cbn [bind].
        rewrite (Hc2 root cf path (fun y Hy => Hcf y (or_intror Hy)) (fun i Hi => Hp i (in_or_app _ _ _ (or_intror Hi)))). reflexivity.
  Qed.

  Lemma frag_all l :
    (fix all (l : list pval) : bool := match l with [] => true | x :: l' => frag F x && all l' end) l = forallb (frag F) l.
  Proof. induction l as [|x l IH]; [reflexivity|]. cbn [forallb]. rewrite <- IH. reflexivity. Qed.

  Lemma need_le x l fuel : In x l -> (fold_right (fun x acc => Nat.max (need x) acc) O l <= fuel)%nat -> (need x <= fuel)%nat.
  Proof.
    induction l as [|y l IH]; intros Hin Hle; [destruct Hin|]. cbn [fold_right] in Hle. destruct Hin as [->|Hin].
    - lia.
    - apply IH; [assumption|lia].
  Qed.

  (* a leaf state: no child states *)
  Lemma leaf_tree fuel m sl c mo l fields id tag k :
    dget (s "__id__") fields = None -> id <> 0%Z -> memo_mem (key id) m = false ->
    In (l, tag) frag_loaders -> kind_of_class tag = Some k ->
    forall r, (forall rec, build E rec sl [] tag k m (node_state c mo l fields id) = r) ->
    get_tree (S fuel) E proto [] sl m (node_state c mo l fields id) = r.
  Proof. intros Hf Hid Hm Hl Hk r Hr. rewrite (gt_step _ _ _ _ _ _ _ _ _ _ Hf Hm Hl Hk). apply Hr. Qed.

  Lemma memo_cons h i m : memo_mem h (key i :: m) = memo_mem h m || zmem h [i].
  Proof. cbn [memo_mem zmem existsb]. rewrite orb_false_r, orb_comm. reflexivity. Qed.

  Lemma gt_ok h mo c : h_module h = JStr mo -> h_class h = JStr c -> mo <> [] -> c <> [] ->
    mem (qual mo c) (c_missing C) = false -> gt C h = Ok (mo, c).
  Proof.
    intros Hm Hc Hmo Hcn Hmiss. unfold gt. rewrite Hm, Hc. cbn [jstr bind].
    destruct mo as [|? ?]; [congruence|]. destruct c as [|? ?]; [congruence|]. rewrite Hmiss. reflexivity.
  Qed.

  Lemma in_last {A} (x : A) l : In x (l ++ [x]).
  Proof. apply in_or_app. right. left. reflexivity. Qed.

  Theorem frag_rt : forall v, frag F v = true -> Q v.
  Proof.
    apply (pval_ind' (fun v => frag F v = true -> Q v)).
    - (* leaves *)
      intros v Hl Hfr st j st' H. destruct v; try discriminate Hl; try discriminate Hfr; cbn [get_state] in H.
      + (* PScalar *)
        injection H as <- <-. split; [reflexivity|]. intros fuel m sl Hn _ Hfresh.
        destruct fuel as [|fuel]; [cbn in Hn; lia|].
        assert (Hj : jids (json_state (json_text sc) id) = [id]) by reflexivity. rewrite Hj in *.
        destruct (Hfresh id (or_introl eq_refl)) as [Hid Hm].
        unfold json_state.
        eexists. eexists. split.
        * apply leaf_tree with (tag := s "_general.JsonNode") (k := KJson); [reflexivity|exact Hid|exact Hm|cbn; tauto|reflexivity|].
          intros rec. unfold build. rewrite init_eq by (try reflexivity; exact Hid). cbn [bind]. reflexivity.
        * split; [reflexivity|]. split; [intros h; apply memo_cons|].
          intros root cf path Hcf Hp. destruct cf as [|cf]; [cbn in Hcf; lia|].
          cbn [construct_val]; unfold set_aux, mkh; cbn [h_id]. rewrite (Hp id (or_introl eq_refl)).
          unfold cbody, nid, key; cbn [h_kind h_aux h_id]. rewrite key_div.
          cbn [frag] in Hfr. unfold scalar_rt_ok in Hfr. destruct (json_parse (json_text sc)) as [sc'|]; [|discriminate].
          apply scalar_eqb_true in Hfr. subst. reflexivity.
      + (* PSlice *)
        cbn [frag] in Hfr. apply andb_prop in Hfr. destruct Hfr as [Hfr Hc0]. apply andb_prop in Hfr. destruct Hfr as [Ha Hb].
        assert (Hsb : forall x st0, bound_supported x = true -> exists jx, sbound_json x st0 = Ok (jx, st0) /\ raw_bound jx = Ok x /\ jids jx = []).
        { intros x st0 Hx. destruct x as [[| | | |]|]; try discriminate Hx; eexists; (split; [reflexivity|split; reflexivity]). }
        destruct (Hsb a st Ha) as [ja [Ea [Ra Ia]]]. rewrite Ea in H. cbn [bind] in H.
        destruct (Hsb b st Hb) as [jb [Eb [Rb Ib]]]. rewrite Eb in H. cbn [bind] in H.
        destruct (Hsb c st Hc0) as [jc [Ec [Rc Ic]]]. rewrite Ec in H. cbn [bind] in H.
        injection H as <- <-. split; [reflexivity|].
        match goal with |- context [jids ?j0] =>
          assert (Hj : jids j0 = [id]) by (change (jids j0) with ((jids ja ++ jids jb ++ jids jc ++ []) ++ [id]); rewrite Ia, Ib, Ic; reflexivity);
          rewrite Hj; clear Hj end.
        intros fuel m sl Hn _ Hfresh.
        destruct fuel as [|fuel]; [cbn in Hn; lia|].
        destruct (Hfresh id (or_introl eq_refl)) as [Hid Hm].
        eexists. eexists. split.
        * apply leaf_tree with (tag := s "_general.SliceNode") (k := KSlice); [reflexivity|exact Hid|exact Hm|cbn; tauto|reflexivity|].
          intros rec. unfold build. rewrite init_eq by (try reflexivity; exact Hid). cbn [bind]. reflexivity.
        * split; [reflexivity|]. split; [intros h; apply memo_cons|].
          intros root cf path Hcf Hp. destruct cf as [|cf]; [cbn in Hcf; lia|].
          cbn [construct_val]; unfold set_aux, mkh; cbn [h_id]. rewrite (Hp id (or_introl eq_refl)).
          unfold cbody, nid, key; cbn [h_kind h_aux h_id]. rewrite Ra; cbn [bind]; rewrite Rb; cbn [bind]; rewrite Rc; cbn [bind]. rewrite key_div. reflexivity.
      + (* PFunc *)
        injection H as <- <-. split; [reflexivity|].
        match goal with |- context [jids ?j0] => assert (Hj : jids j0 = [id]) by reflexivity; rewrite Hj; clear Hj end.
        intros fuel m0 sl Hn _ Hfresh.
        destruct fuel as [|fuel]; [cbn in Hn; lia|].
        destruct (Hfresh id (or_introl eq_refl)) as [Hid Hm].
        eexists. eexists. split.
        * apply leaf_tree with (tag := s "_general.FunctionNode") (k := KFunction); [reflexivity|exact Hid|exact Hm|cbn; tauto|reflexivity|].
          intros rec. unfold build. rewrite init_eq by (try reflexivity; exact Hid). cbn [bind]. reflexivity.
        * split; [reflexivity|]. split; [intros h; apply memo_cons|].
          intros root cf path Hcf Hp. destruct cf as [|cf]; [cbn in Hcf; lia|].
          cbn [construct_val]; unfold set_aux, mkh; cbn [h_id]. rewrite (Hp id (or_introl eq_refl)).
          unfold cbody, gt, nid, key; cbn [h_kind h_id h_module h_class jstr bind]. rewrite key_div.
          cbn [frag] in Hfr. unfold resolvable in Hfr. apply andb_prop in Hfr. destruct Hfr as [Hmiss Hne].
          destruct HC as [_ HCm]. rewrite HCm. destruct m as [|? ?]; [discriminate|]. destruct c as [|? ?]; [discriminate|].
          apply negb_true_iff in Hmiss. rewrite Hmiss. reflexivity.
      + (* PType *)
        injection H as <- <-. split; [reflexivity|].
        match goal with |- context [jids ?j0] => assert (Hj : jids j0 = [id]) by reflexivity; rewrite Hj; clear Hj end.
        intros fuel m0 sl Hn _ Hfresh.
        destruct fuel as [|fuel]; [cbn in Hn; lia|].
        destruct (Hfresh id (or_introl eq_refl)) as [Hid Hm]. unfold type_state.
        eexists. eexists. split.
        * apply leaf_tree with (tag := s "_general.TypeNode") (k := KType); [reflexivity|exact Hid|exact Hm|cbn; tauto|reflexivity|].
          intros rec. unfold build. rewrite init_eq by (try reflexivity; exact Hid). cbn [bind]. reflexivity.
        * split; [reflexivity|]. split; [intros h; apply memo_cons|].
          intros root cf path Hcf Hp. destruct cf as [|cf]; [cbn in Hcf; lia|].
          cbn [construct_val]; unfold set_aux, mkh; cbn [h_id]. rewrite (Hp id (or_introl eq_refl)).
          unfold cbody, gt, nid, key; cbn [h_kind h_id h_module h_class jstr bind]. rewrite key_div.
          cbn [frag] in Hfr. unfold resolvable in Hfr. apply andb_prop in Hfr. destruct Hfr as [Hmiss Hne].
          destruct HC as [_ HCm]. rewrite HCm. destruct m as [|? ?]; [discriminate|]. destruct c as [|? ?]; [discriminate|].
          apply negb_true_iff in Hmiss. rewrite Hmiss. reflexivity.
    - (* PSeq *)
      intros q id mo c nt l IH Hfr st j st' H. cbn [get_state] in H. cbn [frag] in Hfr. rewrite frag_all in Hfr.
      apply andb_prop in Hfr. destruct Hfr as [Hfr Hc]. apply andb_prop in Hfr. destruct Hfr as [Hfr Hmo].
      apply andb_prop in Hfr. destruct Hfr as [Hnt Hall]. apply pstr_eqb_true in Hmo. subst mo.
      destruct nt; [discriminate|].
      inv_bind H. destruct (states_rt l IH Hall _ _ _ E0) as [Hlate HL].
      split; [exact Hlate|]. 
      set (ld := match q with QList => CodecDump.K "ListNode" | QTuple => CodecDump.K "TupleNode" | QSet => CodecDump.K "SetNode" end).
      match goal with |- context [jids ?j0] =>
        assert (Hj : jids j0 = jids_list l0 ++ [id]) by (rewrite <- jids_arr; destruct q; reflexivity) end.
      rewrite Hj. clear Hj.
      intros fuel m sl Hn Hnd Hfresh. destruct fuel as [|fuel]; [cbn in Hn; lia|]. cbn [need] in Hn.
      destruct (NoDup_app_inv _ _ Hnd) as [Hnd1 [_ Hdis]].
      destruct (Hfresh id (in_last id _)) as [Hid Hm].
      set (tagk := match q with QList => (s "_general.ListNode", KList) | QTuple => (s "_general.TupleNode", KTuple) | QSet => (s "_general.SetNode", KSet) end).
      destruct (HL fuel (key id :: m) (GetTree.K "content") (fun x Hx => need_le x l fuel Hx ltac:(lia)) Hnd1) as [ns [m1 [Hsub [Hnodes [Hlen [Hm1 Hcon]]]]]].
      { intros i Hi. split; [apply (Hfresh i); apply in_or_app; left; exact Hi|].
        cbn [memo_mem]. rewrite (proj2 (Hfresh i (in_or_app _ _ _ (or_introl Hi)))), orb_false_r.
        cbn [key hkey_eqb]. apply Z.eqb_neq. intro Heq. apply (Hdis i Hi). left. lia. }
      exists (Node (mkh sl (snd tagk) (fst tagk) id c (s "builtins") JNull) (or_empty (GetTree.K "content") LEmptyList ns)), m1.
      split.
      + transitivity (build E (get_tree fuel E proto) sl [] (fst tagk) (snd tagk) m (node_state c (s "builtins") ld [(CodecDump.K "content", JArr l0)] id)).
        { apply (gt_step fuel sl m c (s "builtins") ld [(CodecDump.K "content", JArr l0)] id (fst tagk) (snd tagk));
            [reflexivity|exact Hm|destruct q; cbn; tauto|destruct q; reflexivity]. }
        assert (Hb : build E (get_tree fuel E proto) sl [] (fst tagk) (snd tagk) m (node_state c (s "builtins") ld [(CodecDump.K "content", JArr l0)] id)
                = do (h, m0) <- node_init sl (snd tagk) (fst tagk) [] true m (node_state c (s "builtins") ld [(CodecDump.K "content", JArr l0)] id) JNull;
                  do (ns, m1) <- sub_list (get_tree fuel E proto) [] (GetTree.K "content") m0 l0;
                  Ok (Node h (or_empty (GetTree.K "content") LEmptyList ns), m1)).
        { destruct q; reflexivity. }
        rewrite Hb, init_eq by (try reflexivity; exact Hid). cbn [bind]. rewrite Hsub. reflexivity.
      + split; [reflexivity|]. split.
        * intros h. rewrite Hm1, memo_cons, zmem_app, <- !orb_assoc. f_equal. apply orb_comm.
        * intros root cf path Hcf Hp. destruct cf as [|cf]; [cbn in Hcf; lia|]. cbn [need] in Hcf.
          cbn [construct_val]. unfold mkh at 1. cbn [h_id]. rewrite (Hp id (in_last id _)).
          assert (Hstrip : strip_empty LEmptyList (or_empty (GetTree.K "content") LEmptyList ns) = ns).
          { destruct ns as [|n1 ns']; [reflexivity|]. cbn [or_empty strip_empty]. cbn [forallb] in Hnodes.
            destruct n1; try discriminate Hnodes. destruct ns'; reflexivity. }
          assert (Hmap : mapM (construct_val C files root cf (key id :: path)) ns = Ok l).
          { apply Hcon; [intros x Hx; apply (need_le x l cf Hx); lia|].
            intros i Hi. cbn [memo_mem]. rewrite (Hp i (in_or_app _ _ _ (or_introl Hi))), orb_false_r.
            cbn [key hkey_eqb]. apply Z.eqb_neq. intro Heq. apply (Hdis i Hi). left. lia. }
          unfold facts_sane in Hsane. apply andb_prop in Hsane. destruct Hsane as [Hs Hs4]. apply andb_prop in Hs. destruct Hs as [Hs Hs3].
          apply andb_prop in Hs. destruct Hs as [Hs1 Hs2]. apply negb_true_iff in Hs1, Hs2, Hs3, Hs4.
          destruct HC as [HCn HCm].           assert (Hne : forall t : string, t <> EmptyString -> s t <> []) by (intros [|a0 t0] Ht; [congruence|cbn; discriminate]).
          destruct q; apply pstr_eqb_true in Hc; subst c; unfold cbody, mkh; cbn [h_kind tagk snd fst].
          -- erewrite gt_ok; [|reflexivity|reflexivity|apply Hne; discriminate|apply Hne; discriminate|rewrite HCm; exact Hs2].
             cbn [bind]. rewrite Hstrip, Hmap. cbn [bind]. unfold nid, key; cbn [h_id]. rewrite key_div. reflexivity.
          -- erewrite gt_ok; [|reflexivity|reflexivity|apply Hne; discriminate|apply Hne; discriminate|rewrite HCm; exact Hs3].
             cbn [bind]. rewrite Hstrip, Hmap. cbn [bind]. rewrite HCn.
             change (mem (qual (s "builtins") (s "tuple")) (f_namedtuples F)) with (mem (s "builtins.tuple") (f_namedtuples F)). rewrite Hs1.
             unfold nid, key; cbn [h_id]. rewrite key_div. reflexivity.
          -- erewrite gt_ok; [|reflexivity|reflexivity|apply Hne; discriminate|apply Hne; discriminate|rewrite HCm; exact Hs4].
             cbn [bind]. rewrite Hstrip, Hmap. cbn [bind]. unfold nid, key; cbn [h_id]. rewrite key_div. reflexivity.
    - intros; discriminate.
    - intros; discriminate.
    - intros; discriminate.
    - intros; discriminate.
    - intros; discriminate.
    - intros; discriminate.
    - intros; discriminate.
    - intros; discriminate.
    - intros; discriminate.
    - intros; discriminate.
  Qed.
End RT.

(* loads() below the root: get_tree + construct on a state, the protocol being given *)
Definition load_state (C : cenv) (files : list (hkey * json)) (proto : json) (j : json) : res pval :=
  do (t, _) <- get_tree default_fuel (c_env C) proto [] (SOne (s "root")) [] j;
  construct_val C files t construct_fuel [] t.

(* one dump/load cycle on states *)
Definition cycle_state (D : denv) (C : cenv) (files : list (hkey * json)) (base : Z) (v : pval) : res pval :=
  do (j, _) <- get_state D v (init_dst base);
  load_state C files (JInt (e_cur (c_env C))) j.

Fixpoint nodupZ (l : list Z) : bool :=
  match l with [] => true | x :: l' => negb (existsb (Z.eqb x) l') && nodupZ l' end.
Lemma nodupZ_NoDup l : nodupZ l = true -> NoDup l.
Proof.
  induction l as [|x l IH]; cbn [nodupZ]; intros H; [constructor|]. apply andb_prop in H. destruct H as [H1 H2].
  constructor; [|auto]. intro Hin. apply negb_true_iff in H1.
  assert (existsb (Z.eqb x) l = true) by (apply existsb_exists; exists x; split; [assumption|apply Z.eqb_refl]). congruence.
Qed.

(* the ids the dump writes are pairwise distinct and non-zero: a tree-shaped value *)
Definition ids_tree (D : denv) (base : Z) (v : pval) : bool :=
  match get_state D v (init_dst base) with
  | Ok (j, _) => nodupZ (jids j) && forallb (fun i => negb (Z.eqb i 0)) (jids j)
  | Raise _ => false
  end.

Theorem frag_roundtrip D F C files base v :
  c_namedtuples C = f_namedtuples F /\ c_missing C = f_missing F ->
  facts_sane F = true -> reg_ok (e_reg (c_env C)) (e_cur (c_env C)) = true ->
  frag F v = true -> ids_tree D base v = true -> (need v <= default_fuel)%nat ->
  cycle_state D C files base v = Ok v.
Proof.
  intros HC Hs Hr Hf Hids Hneed. unfold cycle_state, ids_tree in *.
  destruct (get_state D v (init_dst base)) as [[j st]|] eqn:E0; [|discriminate]. cbn [bind].
  apply andb_prop in Hids. destruct Hids as [Hnd Hnz]. apply nodupZ_NoDup in Hnd. rewrite forallb_forall in Hnz.
  destruct (frag_rt D F (c_env C) C files HC Hs Hr v Hf _ _ _ E0) as [_ H].
  destruct (H default_fuel [] (SOne (s "root")) Hneed Hnd) as [n [m' [Hg [_ [_ Hc]]]]].
  { intros i Hi. split; [|reflexivity]. specialize (Hnz i Hi). apply negb_true_iff in Hnz. apply Z.eqb_neq. exact Hnz. }
  unfold load_state. rewrite Hg. cbn [bind]. apply Hc; [unfold construct_fuel, default_fuel in *; lia|]. intros; reflexivity.
Qed.

(* k cycles *)
Fixpoint cycles (D : denv) (C : cenv) (files : list (hkey * json)) (base : Z) (k : nat) (v : pval) : res pval :=
  match k with
  | O => Ok v
  | S k' => do v' <- cycle_state D C files base v; cycles D C files base k' v'
  end.

Theorem frag_stable D F C files base v :
  c_namedtuples C = f_namedtuples F /\ c_missing C = f_missing F ->
  facts_sane F = true -> reg_ok (e_reg (c_env C)) (e_cur (c_env C)) = true ->
  frag F v = true -> ids_tree D base v = true -> (need v <= default_fuel)%nat ->
  forall k, cycles D C files base k v = Ok v.
Proof.
  intros HC Hs Hr Hf Hids Hneed k. induction k as [|k IH]; [reflexivity|].
  cbn [cycles]. rewrite (frag_roundtrip D F C files base v HC Hs Hr Hf Hids Hneed). cbn [bind]. exact IH.
Qed.
