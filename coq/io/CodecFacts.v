(* C05 facts, part 3: decidable guards and the packaged theorems. *)
From Skv Require Import PyStrFacts CodecGuards CodecWfFacts PyValInd NodeInd TreeIds GraphAudit ConstructFacts.
From Coq Require Import Lia.
From Skv Require Import CodecTreeFacts CodecMemberFacts CodecShareFacts PyValEqFacts.

(* the objects of a value: the value, its sub-values, and the type objects of its dict keys *)
Definition kt_objs (D : denv) (l : list (dkey * pval)) : list pval :=
  flat_map (fun kv => match ktv D (fst kv) with Some tv => [tv] | None => [] end) l.
Fixpoint objs (D : denv) (v : pval) {struct v} : list pval :=
  v :: match v with
       | PSeq _ _ _ _ _ l => flat_map (fun x => objs D x) l
       | PDict _ _ _ l => kt_objs D l ++ flat_map (fun kv => objs D (snd kv)) l
       | PDefDict _ _ _ f l => kt_objs D l ++ objs D f ++ flat_map (fun kv => objs D (snd kv)) l
       | POpFunc _ _ a => objs D a
       | PObjArr _ _ _ sh l =>     (* the axis lengths that are cached small ints, the empty tuple for shape (): they are met again
                                      below get_state(obj.shape) *)
           flat_map (fun d => if is_small_int d then [PScalar (small_int_base + d) (SInt d)] else []) sh
           ++ match sh with [] => [empty_tuple_val] | _ => [] end
           ++ flat_map (fun x => objs D x) l
       | PMasked _ _ _ d k => objs D d ++ objs D k
       | PRandState _ _ _ x => objs D x
       | PRandGen _ _ _ x y => objs D x ++ objs D y
       | PPartial _ _ _ f a k n => objs D f ++ objs D a ++ objs D k ++ objs D n
       | PObj _ _ _ _ _ ok x =>        (* the state / the argument tuple; an object without state has no part *)
           match ok with OKState | OKReduce => objs D x | _ => [] end
       | _ => []
       end.

(* same label => same object; labels of the value's objects lie strictly between 0 and the allocator's base *)
Definition objs_wf (base : Z) (U : list pval) : bool :=
  forallb (fun a => (0 <? pid a)%Z && (pid a <? base)%Z
                    && forallb (fun b => negb (Z.eqb (pid a) (pid b)) || pval_eqb a b) U) U.

Definition keyb (F : cfacts) (D : denv) (k : dkey) : bool :=
  match k_val k with
  | Some sc =>
      match coerce_key (k_mod k) (k_cls k) (key_text sc) with Ok sc' => scalar_eqb sc' sc | Raise _ => false end
      && match ktv D k with Some _ => true | None => false end
      && resolvable F (k_mod k) (k_cls k)
  | None => false
  end.
Definition itemsb (F : cfacts) (D : denv) (l : list (dkey * pval)) : bool :=
  forallb (keyb F D) (map fst l) && nodup_texts (map (fun kv => ktext (fst kv)) l)
  && distinct_from [] (map fst l) && forallb (fun kv => negb (is_prop (snd kv))) l.
Definition dict_clsb (mo c : pstr) : bool :=
  (pstr_eqb mo (s "builtins") && pstr_eqb c (s "dict")) || (pstr_eqb mo (s "collections") && pstr_eqb c (s "OrderedDict")).
Definition seq_clsb (q : seqkind) (c : pstr) : bool :=
  match q with QList => pstr_eqb c (s "list") | QTuple => pstr_eqb c (s "tuple") | QSet => pstr_eqb c (s "set") end.

Definition opfunc_okb (c : pstr) (attrs : pval) : bool :=
  match attrs with
  | PSeq _ _ _ _ _ (PScalar _ (SStr _) :: _) => true
  | PSeq _ _ _ _ _ (_ :: _) => pstr_eqb c (s "itemgetter")
  | _ => false
  end.

Definition arr_clsb (F : cfacts) (gen : bool) (mo c : pstr) : bool :=
  (negb gen && pstr_eqb mo (s "numpy") && pstr_eqb c (s "ndarray"))
  || (negb (pstr_eqb (qual mo c) (s "numpy.ndarray")) && resolvable F mo c && Bool.eqb gen (mem (qual mo c) (f_generic F))).
Definition partial_okb (a k : pval) : bool :=
  match a, k with PSeq QTuple _ _ _ _ _, PDict _ _ _ _ => true | _, _ => false end.

(* the proved fragment of the property's grammar *)
Fixpoint fragb (F : cfacts) (D : denv) (v : pval) {struct v} : bool :=
  match v with
  | PScalar _ sc => scalar_rt_ok sc
  | PBytes _ _ mo c _ => resolvable F mo c        (* bytes / bytearray and their subclasses: the dumped class is resolved at load *)
  | PSeq q _ mo c nt l => pstr_eqb mo (s "builtins") && negb nt && seq_clsb q c && forallb (fun x => fragb F D x) l
  | PDict _ mo c l => dict_clsb mo c && itemsb F D l && forallb (fun kv => fragb F D (snd kv)) l
  | PDefDict _ mo c f l =>
      pstr_eqb mo (s "collections") && pstr_eqb c (s "defaultdict") && itemsb F D l && fragb F D f
      && forallb (fun kv => fragb F D (snd kv)) l
  | PSlice _ a b c => bound_supported a && bound_supported b && bound_supported c
  | PFunc _ mo c | PType _ mo c => resolvable F mo c
  | POpFunc _ c a => resolvable F (s "operator") c && opfunc_okb c a && fragb F D a
  | PArr _ gen mo c _ => arr_clsb F gen mo c
  | PObjArr _ mo c shape cells =>      (* every rank (0 included), zero-length axes included; cells anywhere in the fragment *)
      pstr_eqb mo (s "numpy") && pstr_eqb c (s "ndarray")
      && shape_okb shape (length cells)
      && forallb (fun d => scalar_rt_ok (SInt d)) shape
      && forallb (fun x => fragb F D x) cells
  | PSparse _ _ _ _ | PDType _ _ => true
  | PMasked _ mo c d k => pstr_eqb mo (s "numpy.ma") && pstr_eqb c (s "MaskedArray") && fragb F D d && fragb F D k
  | PRandState _ mo c x => resolvable F mo c && fragb F D x
  | PRandGen _ mo c x y => resolvable F mo c && fragb F D x && fragb F D y
  | PPartial _ mo c f a k n =>
      pstr_eqb mo (s "functools") && pstr_eqb c (s "partial") && partial_okb a k
      && fragb F D f && fragb F D a && fragb F D k && fragb F D n
  | PObj _ mo c hk hidden ok x =>
      (* user objects on the generic object path: ANY class whose name resolves at load and from whose name the loader derives no
         hidden payload (plain_cls); the state (OKState: any value of the fragment, None and falsy values included), no state
         (OKNoState), or the __reduce__ argument tuple (OKReduce) *)
      match hk, hidden with HKNone, [] => true | _, _ => false end
      && plain_cls F mo c
      && match ok with
         | OKState => fragb F D x
         | OKReduce => match x with PSeq QTuple _ _ _ _ _ => true | _ => false end && fragb F D x
         | OKNoState => pval_eqb x pnone
         | OKRaise _ => false
         end
  | _ => false
  end.

Lemma nodup_texts_NoDup l : nodup_texts l = true -> NoDup l.
Proof.
  induction l as [|x l IH]; cbn [nodup_texts]; intros H; [constructor|]. apply andb_prop in H. destruct H as [H1 H2].
  constructor; [|auto]. intro Hin. apply mem_In in Hin. rewrite Hin in H1. discriminate.
Qed.

Section Pack.
  Variable D : denv.
  Variable F : cfacts.
  Variable U : list pval.
  Let Objs := fun w => In w U.

  Lemma itemsb_ok l : itemsb F D l = true -> incl (kt_objs D l) U -> items_ok D F Objs l.
  Proof.
    unfold itemsb. intros H Hin. apply andb_prop in H. destruct H as [H H4]. apply andb_prop in H. destruct H as [H H3].
    apply andb_prop in H. destruct H as [H1 H2]. unfold items_ok. repeat split.
    - rewrite forallb_forall in H1. apply Forall_forall. intros k Hk. specialize (H1 k Hk). unfold keyb in H1.
      destruct (k_val k) as [sc|] eqn:Ek; [|discriminate]. apply andb_prop in H1. destruct H1 as [H1 Hr]. apply andb_prop in H1. destruct H1 as [Hc Ht].
      destruct (coerce_key _ _ _) as [sc'|] eqn:Ec; [|discriminate]. apply scalar_eqb_true in Hc. subst sc'.
      destruct (ktv D k) as [tv|] eqn:Etv; [|discriminate]. exists sc, tv. repeat split; try assumption.
      apply Hin. unfold kt_objs. apply in_map_iff in Hk. destruct Hk as [kv [<- Hkv]]. apply in_flat_map. exists kv. split; [exact Hkv|].
      rewrite Etv. left. reflexivity.
    - apply nodup_texts_NoDup. exact H2.
    - exact H3.
    - rewrite forallb_forall in H4. apply Forall_forall. intros kv Hkv. specialize (H4 kv Hkv). apply negb_true_iff in H4. exact H4.
  Qed.

  Lemma incl_flat {A} (f : A -> list pval) l x : In x l -> incl (flat_map f l) U -> incl (f x) U.
  Proof. intros Hx H y Hy. apply H. apply in_flat_map. exists x. auto. Qed.

  Lemma fragb_vok : forall v, fragb F D v = true -> incl (objs D v) U -> vok D F Objs v.
  Proof.
    apply (pval_ind' (fun v => fragb F D v = true -> incl (objs D v) U -> vok D F Objs v)).
    - intros v Hl Hf Hi. assert (Ho : Objs v) by (unfold Objs; apply Hi; destruct v; cbn [objs]; left; reflexivity).
      destruct v; try discriminate Hl; cbn [fragb] in Hf; try discriminate Hf; cbn [vok]; (split; [exact Ho|]); try exact Hf; try exact I.
      + apply andb_prop in Hf. destruct Hf as [Hf H3]. apply andb_prop in Hf. destruct Hf as [H1 H2]. auto.
      + unfold arr_clsb in Hf. unfold arr_cls_ok. apply orb_prop in Hf. destruct Hf as [Hf|Hf].
        * left. apply andb_prop in Hf. destruct Hf as [Hf H3]. apply andb_prop in Hf. destruct Hf as [H1 H2].
          apply negb_true_iff in H1. apply pstr_eqb_eq in H2, H3. auto.
        * right. apply andb_prop in Hf. destruct Hf as [Hf H3]. apply andb_prop in Hf. destruct Hf as [H1 H2].
          apply negb_true_iff in H1. apply Bool.eqb_prop in H3. auto.
    - intros q id mo c nt l IH Hf Hi. cbn [fragb] in Hf. apply andb_prop in Hf. destruct Hf as [Hf Hall]. apply andb_prop in Hf. destruct Hf as [Hf Hc].
      apply andb_prop in Hf. destruct Hf as [Hmo Hnt]. apply pstr_eqb_eq in Hmo. apply negb_true_iff in Hnt. subst.
      cbn [vok]. split; [unfold Objs; apply Hi; cbn [objs]; left; reflexivity|]. split; [reflexivity|]. split; [reflexivity|]. split.
      { destruct q; cbn in Hc; apply pstr_eqb_eq in Hc; exact Hc. }
      cbn [objs] in Hi. assert (Hi' : incl (flat_map (fun x => objs D x) l) U) by (intros y Hy; apply Hi; right; exact Hy).
      clear Hi. rewrite forallb_forall in Hall. induction l as [|x l IHl]; [exact I|]. inversion IH as [|? ? Hx Hr]; subst. split.
      + apply Hx; [apply Hall; left; reflexivity|]. apply (incl_flat (fun x => objs D x) (x :: l) x (or_introl eq_refl) Hi').
      + apply IHl; [exact Hr|intros y Hy; apply Hall; right; exact Hy|]. intros y Hy. apply Hi'. cbn [flat_map]. apply in_or_app. right. exact Hy.
    - intros id mo c l IH Hf Hi. cbn [fragb] in Hf. apply andb_prop in Hf. destruct Hf as [Hf Hall]. apply andb_prop in Hf. destruct Hf as [Hc Hit].
      cbn [vok]. split; [unfold Objs; apply Hi; cbn [objs]; left; reflexivity|]. cbn [objs] in Hi. split.
      { unfold dict_clsb in Hc. apply orb_prop in Hc. destruct Hc as [Hc|Hc]; apply andb_prop in Hc; destruct Hc as [H1 H2];
          apply pstr_eqb_eq in H1, H2; subst; [left|right]; split; reflexivity. }
      split. { apply itemsb_ok; [exact Hit|]. intros y Hy. apply Hi. right. apply in_or_app. left. exact Hy. }
      assert (Hi' : incl (flat_map (fun kv => objs D (snd kv)) l) U) by (intros y Hy; apply Hi; right; apply in_or_app; right; exact Hy).
      clear Hi Hit. rewrite forallb_forall in Hall. induction l as [|x l IHl]; [exact I|]. inversion IH as [|? ? Hx Hr]; subst. split.
      + apply Hx; [apply Hall; left; reflexivity|]. apply (incl_flat (fun kv => objs D (snd kv)) (x :: l) x (or_introl eq_refl) Hi').
      + apply IHl; [exact Hr|intros y Hy; apply Hall; right; exact Hy|]. intros y Hy. apply Hi'. cbn [flat_map]. apply in_or_app. right. exact Hy.
    - intros id mo c f l IHf IH Hf Hi. cbn [fragb] in Hf. apply andb_prop in Hf. destruct Hf as [Hf Hall]. apply andb_prop in Hf. destruct Hf as [Hf Hff].
      apply andb_prop in Hf. destruct Hf as [Hf Hit]. apply andb_prop in Hf. destruct Hf as [Hmo Hc]. apply pstr_eqb_eq in Hmo, Hc. subst.
      cbn [vok]. split; [unfold Objs; apply Hi; cbn [objs]; left; reflexivity|]. cbn [objs] in Hi. split; [reflexivity|]. split; [reflexivity|].
      split. { apply itemsb_ok; [exact Hit|]. intros y Hy. apply Hi. right. apply in_or_app. left. exact Hy. }
      split. { apply IHf; [exact Hff|]. intros y Hy. apply Hi. right. apply in_or_app. right. apply in_or_app. left. exact Hy. }
      assert (Hi' : incl (flat_map (fun kv => objs D (snd kv)) l) U)
        by (intros y Hy; apply Hi; right; apply in_or_app; right; apply in_or_app; right; exact Hy).
      clear Hi Hit. rewrite forallb_forall in Hall. induction l as [|x l IHl]; [exact I|]. inversion IH as [|? ? Hx Hr]; subst. split.
      + apply Hx; [apply Hall; left; reflexivity|]. apply (incl_flat (fun kv => objs D (snd kv)) (x :: l) x (or_introl eq_refl) Hi').
      + apply IHl; [exact Hr|intros y Hy; apply Hall; right; exact Hy|]. intros y Hy. apply Hi'. cbn [flat_map]. apply in_or_app. right. exact Hy.
    - intros id mo c sh l IH Hf Hi. cbn [fragb] in Hf. apply andb_prop in Hf. destruct Hf as [Hf Hall]. apply andb_prop in Hf. destruct Hf as [Hf Hrt].
      apply andb_prop in Hf. destruct Hf as [Hf Hsh]. apply andb_prop in Hf. destruct Hf as [Hmo Hc].
      apply pstr_eqb_eq in Hmo, Hc. subst.
      cbn [vok]. split; [unfold Objs; apply Hi; cbn [objs]; left; reflexivity|]. cbn [objs] in Hi.
      split; [reflexivity|]. split; [reflexivity|]. split; [exact Hsh|].
      split; [rewrite forallb_forall in Hrt; apply Forall_forall; exact Hrt|].
      split.
      { intros d Hd Hsm. unfold Objs. apply Hi. right. apply in_or_app. left. apply in_flat_map. exists d. split; [exact Hd|]. rewrite Hsm. left. reflexivity. }
      split.
      { intros ->. unfold Objs. apply Hi. right. cbn [flat_map app]. left. reflexivity. }
      assert (Hi' : incl (flat_map (fun x => objs D x) l) U) by (intros y Hy; apply Hi; right; apply in_or_app; right; apply in_or_app; right; exact Hy).
      clear Hi Hrt Hsh. rewrite forallb_forall in Hall. induction l as [|x l IHl]; [exact I|]. inversion IH as [|? ? Hx Hr]; subst. split.
      + apply Hx; [apply Hall; left; reflexivity|]. apply (incl_flat (fun x => objs D x) (x :: l) x (or_introl eq_refl) Hi').
      + apply IHl; [exact Hr|intros y Hy; apply Hall; right; exact Hy|]. intros y Hy. apply Hi'. cbn [flat_map]. apply in_or_app. right. exact Hy.
    - intros id mo c d k IHd IHk Hf Hi. cbn [fragb] in Hf. apply andb_prop in Hf. destruct Hf as [Hf Hfk]. apply andb_prop in Hf. destruct Hf as [Hf Hfd].
      apply andb_prop in Hf. destruct Hf as [Hmo Hc]. apply pstr_eqb_eq in Hmo, Hc. subst.
      cbn [vok]. split; [unfold Objs; apply Hi; cbn [objs]; left; reflexivity|]. split; [reflexivity|]. split; [reflexivity|]. cbn [objs] in Hi. split.
      + apply IHd; [exact Hfd|]. intros y Hy. apply Hi. right. apply in_or_app. left. exact Hy.
      + apply IHk; [exact Hfk|]. intros y Hy. apply Hi. right. apply in_or_app. right. exact Hy.
    - intros id mo c x IHx Hf Hi. cbn [fragb] in Hf. apply andb_prop in Hf. destruct Hf as [Hr Hfx].
      cbn [vok]. split; [unfold Objs; apply Hi; cbn [objs]; left; reflexivity|]. split; [exact Hr|].
      apply IHx; [exact Hfx|]. intros y Hy. apply Hi. cbn [objs]. right. exact Hy.
    - intros id mo c x y IHx IHy Hf Hi. cbn [fragb] in Hf. apply andb_prop in Hf. destruct Hf as [Hf Hfy]. apply andb_prop in Hf. destruct Hf as [Hr Hfx].
      cbn [vok]. split; [unfold Objs; apply Hi; cbn [objs]; left; reflexivity|]. split; [exact Hr|]. cbn [objs] in Hi. split.
      + apply IHx; [exact Hfx|]. intros z Hz. apply Hi. right. apply in_or_app. left. exact Hz.
      + apply IHy; [exact Hfy|]. intros z Hz. apply Hi. right. apply in_or_app. right. exact Hz.
    - intros id mo c f a k n IHf IHa IHk IHn Hf Hi. cbn [fragb] in Hf.
      apply andb_prop in Hf. destruct Hf as [Hf Hfn]. apply andb_prop in Hf. destruct Hf as [Hf Hfk]. apply andb_prop in Hf. destruct Hf as [Hf Hfa].
      apply andb_prop in Hf. destruct Hf as [Hf Hff]. apply andb_prop in Hf. destruct Hf as [Hf Hok]. apply andb_prop in Hf. destruct Hf as [Hmo Hc].
      apply pstr_eqb_eq in Hmo, Hc. subst.
      cbn [vok]. split; [unfold Objs; apply Hi; cbn [objs]; left; reflexivity|]. split; [reflexivity|]. split; [reflexivity|]. cbn [objs] in Hi. split.
      { unfold partial_okb in Hok. unfold partial_ok. destruct a; try discriminate Hok. destruct q; try discriminate Hok. destruct k; try discriminate Hok. exact I. }
      split; [apply IHf; [exact Hff|]; intros z Hz; apply Hi; right; apply in_or_app; left; exact Hz|].
      split; [apply IHa; [exact Hfa|]; intros z Hz; apply Hi; right; apply in_or_app; right; apply in_or_app; left; exact Hz|].
      split; [apply IHk; [exact Hfk|]; intros z Hz; apply Hi; right; apply in_or_app; right; apply in_or_app; right; apply in_or_app; left; exact Hz|].
      apply IHn; [exact Hfn|]. intros z Hz. apply Hi. right. apply in_or_app. right. apply in_or_app. right. apply in_or_app. right. exact Hz.
    - intros id c a IHa Hf Hi. cbn [fragb] in Hf. apply andb_prop in Hf. destruct Hf as [Hf Hfa]. apply andb_prop in Hf. destruct Hf as [Hr Hok].
      cbn [vok]. split; [unfold Objs; apply Hi; cbn [objs]; left; reflexivity|]. split; [exact Hr|]. split.
      + unfold opfunc_okb in Hok. unfold opfunc_attrs_ok. destruct a; try discriminate Hok. destruct items as [|x items]; [discriminate Hok|].
        destruct x; try (apply pstr_eqb_eq in Hok; exact Hok). destruct sc; try (apply pstr_eqb_eq in Hok; exact Hok). exact I.
      + apply IHa; [exact Hfa|]. intros y Hy. apply Hi. cbn [objs]. right. exact Hy.
    - intros; discriminate.
    - intros id mo c hk h ok x _ IHx Hf Hi. cbn [fragb] in Hf.
      apply andb_prop in Hf. destruct Hf as [Hf Hok]. apply andb_prop in Hf. destruct Hf as [Hhh Hpl].
      destruct hk; try discriminate Hhh. destruct h; try discriminate Hhh.
      unfold plain_cls in Hpl. apply andb_prop in Hpl. destruct Hpl as [Hr Hhk].
      assert (Hhk' : hk_of_facts F mo c = HKNone) by (destruct (hk_of_facts F mo c); [reflexivity|discriminate Hhk|discriminate Hhk]).
      cbn [vok]. split; [unfold Objs; apply Hi; cbn [objs]; left; reflexivity|].
      split; [reflexivity|]. split; [reflexivity|]. split; [exact Hr|]. split; [exact Hhk'|].
      destruct ok as [| | |e].
      + apply andb_prop in Hok. destruct Hok as [Hseq Hfx]. split.
        * destruct x; try discriminate Hseq. exact I.
        * apply IHx; [exact Hfx|]. intros y Hy. apply Hi. cbn [objs]. right. exact Hy.
      + apply IHx; [exact Hok|]. intros y Hy. apply Hi. cbn [objs]. right. exact Hy.
      + apply pval_eqb_true. exact Hok.
      + discriminate Hok.
  Qed.
End Pack.

Lemma objs_wf_fun base U : objs_wf base U = true ->
  (forall a b, In a U -> In b U -> pid a = pid b -> a = b) /\ (forall a, In a U -> (0 < pid a < base)%Z).
Proof.
  unfold objs_wf. rewrite forallb_forall. intros H. split.
  - intros a b Ha Hb Hp. specialize (H a Ha). apply andb_prop in H. destruct H as [_ H]. rewrite forallb_forall in H.
    specialize (H b Hb). rewrite Hp, Z.eqb_refl in H. cbn in H. apply pval_eqb_true. exact H.
  - intros a Ha. specialize (H a Ha). apply andb_prop in H. destruct H as [H _]. apply andb_prop in H. destruct H as [H1 H2]. lia.
Qed.

(* loads() below the root: get_tree + construct on a state, the protocol being given *)
Definition load_state (C : cenv) (files : list (hkey * json)) (proto : json) (j : json) : res pval :=
  do (t, _) <- get_tree default_fuel (c_env C) proto [] (SOne (GetTree.K "root")) [] j;
  construct_val C files t construct_fuel t.

Definition c05_guard (F : cfacts) (D : denv) (base : Z) (v : pval) : bool :=
  fragb F D v && objs_wf base (objs D v) && Nat.leb (need v) default_fuel.

Theorem share_roundtrip D F C base v j st :
  c_namedtuples C = f_namedtuples F /\ c_missing C = f_missing F -> c_generic C = f_generic F -> c_hkinds C = f_hkinds F ->
  c_members C = d_members st -> e_members (c_env C) = map fst (c_members C) ->
  facts_sane F = true -> reg_ok (e_reg (c_env C)) (e_cur (c_env C)) = true ->
  c05_guard F D base v = true ->
  get_state D v (init_dst base) = Ok (j, st) ->
  d_late st = None /\ load_state C (file_table j) (JInt (e_cur (c_env C))) j = Ok v.
Proof.
  intros HC HCg HCh HCm HEC Hs Hr Hg Hst. unfold c05_guard in Hg. apply andb_prop in Hg. destruct Hg as [Hg Hn]. apply andb_prop in Hg. destruct Hg as [Hf Hw].
  apply Nat.leb_le in Hn. destruct (objs_wf_fun _ _ Hw) as [Ofun Oid].
  set (Objs := fun w => In w (objs D v)).
  pose proof (fragb_vok D F (objs D v) v Hf (fun y Hy => Hy)) as Hv.
  (* first with an empty file table: the dump-side conclusions do not depend on it *)
  destruct (vok_Q D F (c_env C) C [] base Objs Ofun Oid Hr HC Hs (fun h x1 x2 H1 => match H1 with end) HEC HCg HCh v Hv _ _ _ Hst ltac:(cbn; lia))
    as [Hl [_ [[_ [Hftd _]] _]]].
  split; [exact Hl|].
  assert (Hmok0 : MOK base Objs (init_dst base)) by (intros f b Hd; discriminate Hd).
  rewrite <- HCm in Hftd.
  assert (HFone : forall h x1 x2, In (h, x1) (file_table j) -> In (h, x2) (file_table j) -> fblob C x1 = fblob C x2)
    by (exact (FTd_one C base Objs Ofun Oid _ j Hmok0 Hftd)).
  destruct (vok_Q D F (c_env C) C (file_table j) base Objs Ofun Oid Hr HC Hs HFone HEC HCg HCh v Hv _ _ _ Hst ltac:(cbn; lia)) as [_ [_ [_ HQ]]].
  assert (Hpre : Pre C (file_table j) base Objs (init_dst base) j st).
  { split; [intros f b Hd; discriminate Hd|]. split; [rewrite HCm; apply lk_refl|apply incl_refl]. }
  destruct (HQ default_fuel [] (SOne (GetTree.K "root")) Hn ltac:(intros h Hh; discriminate Hh) Hpre) as [R [m' [Ht _]]].
  unfold load_state. rewrite Ht. cbn [bind].
  apply (root_construct D F (c_env C) C (file_table j) base Objs Ofun Oid Hr HC Hs HFone HEC HCg HCh v _ _ _ default_fuel R m' Hv Hst ltac:(cbn; lia) Hpre Hn Ht).
  unfold construct_fuel, default_fuel in *. lia.
Qed.

