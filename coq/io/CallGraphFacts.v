From Coq Require Import String List Bool.
Import ListNotations.
From Skv Require Import CallGraph.
Open Scope string_scope.

Lemma smem_In x l : smem x l = true <-> In x l.
Proof.
  induction l as [|y l IH]; cbn [smem In].
  - split; [discriminate | tauto].
  - rewrite orb_true_iff, IH, String.eqb_eq. split; intros [H|H]; auto.
Qed.

(* reach g e f : f can be reached from e along edges of g (reflexive, transitive) *)
Inductive reach (g : graph) : string -> string -> Prop :=
| reach_refl f : reach g f f
| reach_step e h f : reach g e h -> In f (calls g h) -> reach g e f.

Lemma closed_step g S h f : closed g S = true -> In h S -> In f (calls g h) -> In f S.
Proof.
  unfold closed. intros Hc Hh Hf. rewrite forallb_forall in Hc. specialize (Hc h Hh).
  rewrite forallb_forall in Hc. apply smem_In. apply Hc. exact Hf.
Qed.

Theorem closed_sound g S e f : closed g S = true -> In e S -> reach g e f -> In f S.
Proof.
  intros Hc He Hr. induction Hr as [f|e h f Hr IH Hf]; [exact He|].
  exact (closed_step g S h f Hc (IH He) Hf).
Qed.

(* the per-run obligation is the boolean static_ok; this theorem is what it means *)
Theorem static_inert_with perm g S entries :
  static_ok_with perm g S entries = true ->
  forall e f, In e entries -> reach g e f -> inert_with perm g f = true.
Proof.
  unfold static_ok_with. intros H e f He Hr.
  apply andb_true_iff in H as [H Hin]. apply andb_true_iff in H as [Hc Hent].
  rewrite forallb_forall in Hent, Hin. apply Hin.
  eapply closed_sound; [exact Hc| |exact Hr]. apply smem_In. apply Hent. exact He.
Qed.

Lemma path_reach_gen g a x p : reach g a x -> path_ok g x p = true -> reach g a (path_end x p).
Proof.
  revert x. induction p as [|b p IH]; intros x Hx H; cbn [path_ok path_end] in *.
  - exact Hx.
  - apply andb_true_iff in H as [Hb Hp]. apply smem_In in Hb.
    apply IH; [eapply reach_step; [exact Hx|exact Hb] | exact Hp].
Qed.

Lemma path_reach g a p : path_ok g a p = true -> reach g a (path_end a p).
Proof. apply path_reach_gen. apply reach_refl. Qed.

Theorem static_inert g S entries :
  static_ok g S entries = true ->
  forall e f, In e entries -> reach g e f -> inert g f = true.
Proof. exact (static_inert_with permitted g S entries). Qed.

(* inertness is about effects only: a function that is inert has no resolve:/fs:/missing: effect *)
Lemma inert_spec g f : inert g f = true <-> forall e, In e (effects g f) -> permitted e = true.
Proof. unfold inert. apply forallb_forall. Qed.

(* a small graph on which the analysis is NOT blind: b is reachable and effectful *)
Definition demo_graph : graph :=
  [("a", (["b"; "c"], [])); ("b", ([], ["resolve:gettype"])); ("c", (["a"], ["reflect:x"])); ("d", ([], ["fs:open"]))].
Example demo_detects : static_ok demo_graph ["a"; "b"; "c"] ["a"] = false /\ static_ok demo_graph ["d"] ["d"] = false.
Proof. vm_compute. repeat split. Qed.
(* a certificate that is not closed, or misses an entry, is rejected *)
Example demo_bad_certificate : static_ok demo_graph ["a"; "c"] ["a"] = false /\ static_ok demo_graph ["c"] ["a"] = false.
Proof. vm_compute. repeat split. Qed.
Example demo_accepts : static_ok [("a", (["c"], [])); ("c", (["a"], ["reflect:x"])); ("d", ([], ["fs:open"]))] ["a"; "c"] ["a"] = true.
Proof. vm_compute. reflexivity. Qed.
Example demo_missing_callee : static_ok [("a", (["zz"], []))] ["a"; "zz"] ["a"] = false.
Proof. vm_compute. reflexivity. Qed.
