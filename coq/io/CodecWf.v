(* C12: what "well-formed archive" means for the model's archives.  Model only (boolean checkers). *)
From Skv Require Export CodecDump.

(* where a state's fields hold further node-states, by loader *)
Inductive cmode := MState | MStates | MDictStates | MMethod | MNd | MRaw.

Definition field_mode (l k : pstr) : cmode :=
  if pstr_eqb k (s "content") then
    if pstr_eqb l (s "ListNode") || pstr_eqb l (s "TupleNode") || pstr_eqb l (s "SetNode") then MStates
    else if pstr_eqb l (s "DictNode") || pstr_eqb l (s "DefaultDictNode") || pstr_eqb l (s "PartialNode")
            || pstr_eqb l (s "MaskedArrayNode") || pstr_eqb l (s "RandomGeneratorNode") then MDictStates
    else if pstr_eqb l (s "MethodNode") then MMethod
    else if pstr_eqb l (s "NdArrayNode") then MNd
    else if pstr_eqb l (s "DTypeNode") || pstr_eqb l (s "RandomStateNode")
            || pstr_eqb l (s "ConstructorFromReduceNode") || pstr_eqb l (s "ObjectNode") then MState
    else MRaw
  else if pstr_eqb k (s "key_types") && pstr_eqb l (s "DictNode") then MState
  else if pstr_eqb k (s "shape") && pstr_eqb l (s "NdArrayNode") then MState
  else if pstr_eqb k (s "attrs") && pstr_eqb l (s "OperatorFuncNode") then MState
  else MRaw.

Definition has_key (k : pstr) (kv : list (pstr * json)) : bool :=
  match dget k kv with Some _ => true | None => false end.
Definition loader_of (kv : list (pstr * json)) : pstr :=
  match dget (s "__loader__") kv with Some (JStr l) => l | _ => [] end.

(* a node-state carries its loader (one the dumper can emit), class, module and id *)
Definition has4 (kv : list (pstr * json)) : bool :=
  has_key (s "__class__") kv && has_key (s "__module__") kv && has_key (s "__id__") kv
  && mem (loader_of kv) model_loaders.

(* j, read in the given mode, consists of well-formed node-states at every node position *)
Fixpoint chk (mode : cmode) (j : json) {struct j} : bool :=
  match mode with
  | MRaw => true
  | MState =>
      match j with
      | JObj kv =>
          has4 kv
          && (fix go (f : list (pstr * json)) : bool :=
                match f with [] => true | (k, x) :: f' => chk (field_mode (loader_of kv) k) x && go f' end) kv
      | _ => false
      end
  | MStates =>
      match j with
      | JArr xs => (fix go (l : list json) : bool := match l with [] => true | x :: l' => chk MState x && go l' end) xs
      | _ => false
      end
  | MNd =>
      match j with
      | JArr xs => (fix go (l : list json) : bool := match l with [] => true | x :: l' => chk MState x && go l' end) xs
      | _ => false         (* the content of an object array is a list of states for every rank (C13-F1 repaired) *)
      end
  | MDictStates =>
      match j with
      | JObj kv => (fix go (f : list (pstr * json)) : bool :=
                      match f with [] => true | (_, x) :: f' => chk MState x && go f' end) kv
      | _ => false
      end
  | MMethod =>
      match j with
      | JObj kv => (fix go (f : list (pstr * json)) : bool :=
                      match f with
                      | [] => true
                      | (k, x) :: f' => (if pstr_eqb k (s "obj") then chk MState x else true) && go f'
                      end) kv
      | _ => false
      end
  end.

Definition schema_wf (cur : Z) (ver : pstr) (j : json) : bool :=
  chk MState j
  && match jindex j (s "protocol") with Ok (JInt p) => Z.eqb p cur | _ => false end
  && match jindex j (s "_skops_version") with Ok (JStr v) => pstr_eqb v ver | _ => false end.

(* the member names node-states refer to: the string values of "file" fields *)
Fixpoint file_refs (j : json) : list pstr :=
  match j with
  | JObj kv =>
      (fix go (f : list (pstr * json)) : list pstr :=
         match f with
         | [] => []
         | (k, x) :: f' =>
             (if pstr_eqb k (s "file") then match x with JStr n => [n] | _ => file_refs x end else file_refs x) ++ go f'
         end) kv
  | JArr xs => (fix go (l : list json) : list pstr := match l with [] => [] | x :: l' => file_refs x ++ go l' end) xs
  | _ => []
  end.

(* flat: not empty, no directory separator, no drive/scheme colon *)
Definition flat_name (n : pstr) : bool :=
  match n with [] => false | _ => forallb (fun c => negb ((c =? 47) || (c =? 92) || (c =? 58))) n end.

Inductive name_shape : pstr -> Prop :=
| NSnpy id : name_shape (npy_name id)
| NSnpz id : name_shape (npz_name id)
| NSbin n : name_shape (uuid_name n)
| NSschema : name_shape (s "schema.json").
